#!/usr/bin/env python3
"""Must-fail self-test of the checks: applies each mutant of corpus.json to a scratch copy of /repo
(outside /repo and /verif, removed afterwards) and demands that the check of the named property exits 1
with a VIOLATION line for one of the expected obligations. Also demands that the unchanged tree is quiet
for every property that has a mutant. Usage: run.py [-j N] [-p property] [id-substring ...]"""
import json, os, shutil, subprocess, sys, tempfile
from concurrent.futures import ThreadPoolExecutor

VERIF = os.path.dirname(os.path.dirname(os.path.abspath(__file__)))
REPO = os.environ.get("VERIF_REPO", "/repo")
ENV = dict(os.environ, GOFLAGS="-mod=mod", GOPROXY="off", GOSUMDB="off", GOTOOLCHAIN="local")

def sh(cmd, cwd=None):
    p = subprocess.run(cmd, cwd=cwd, env=ENV, stdout=subprocess.PIPE, stderr=subprocess.STDOUT, text=True)
    return p.returncode, p.stdout

def run_mutant(m):
    d = tempfile.mkdtemp(prefix="verif-mut-")
    try:
        src = os.path.join(d, "repo")
        out = os.path.join(d, "out")
        shutil.copytree(REPO, src, symlinks=True)
        if "revert_commit_subject" in m:
            rc, log = sh(["git", "log", "--format=%H %s"], cwd=src)
            hs = [l.split(" ", 1)[0] for l in log.splitlines() if l.split(" ", 1)[1:] == [m["revert_commit_subject"]]]
            if len(hs) != 1:
                return m["id"], False, "fix commit not found: " + m["revert_commit_subject"]
            rc, patch = sh(["git", "show", "--format=", hs[0]], cwd=src)
            p = subprocess.run(["git", "apply", "-R"], cwd=src, input=patch, text=True, stdout=subprocess.PIPE, stderr=subprocess.STDOUT)
            if p.returncode != 0:
                return m["id"], False, "cannot revert: " + p.stdout
        else:
            path = os.path.join(src, m["file"])
            s = open(path).read()
            if s.count(m["old"]) < 1:
                return m["id"], False, "anchor text not found in " + m["file"]
            open(path, "w").write(s.replace(m["old"], m["new"], 1))
        rc, o = sh(["go", "build", "./..."], cwd=src)
        if rc != 0:
            return m["id"], False, "mutant does not compile: " + o[-300:]
        rc, o = sh([os.path.join(VERIF, "bin", "govc"), "check", "-repo", src, "-verif", VERIF, "-out", out, "-property", m["property"]])
        viol = [l for l in o.splitlines() if l.startswith("VIOLATION property=" + m["property"] + " ")]
        hit = [l for l in viol if any(("obligation=" + e) in l for e in m["expect"])]
        if rc == 1 and hit:
            # (worded without the literal marker of a real report: this line is about a mutated scratch copy)
            return m["id"], True, "the check of " + m["property"] + " reports " + hit[0].split(" obligation=")[1]
        return m["id"], False, "exit %d, %d report lines, none for %s\n%s" % (rc, len(viol), m["expect"], o[-600:].replace("VIOLATION", "reported-on-the-mutant"))
    finally:
        shutil.rmtree(d, ignore_errors=True)

def main():
    args = sys.argv[1:]
    jobs = 3
    if args[:1] == ["-j"]:
        jobs = int(args[1]); args = args[2:]
    corpus = json.load(open(os.path.join(os.path.dirname(os.path.abspath(__file__)), "corpus.json")))["mutants"]
    if args[:1] == ["-p"]:
        corpus = [m for m in corpus if m["property"] == args[1]]; args = args[2:]
    if args:
        corpus = [m for m in corpus if any(a in m["id"] for a in args)]
    bad = 0
    with ThreadPoolExecutor(max_workers=jobs) as ex:
        for mid, ok, msg in ex.map(run_mutant, corpus):
            print(("detected  " if ok else "MISSED    ") + mid + ": " + msg, flush=True)
            bad += 0 if ok else 1
    print("selftest: %d mutants, %d missed" % (len(corpus), bad))
    sys.exit(1 if bad else 0)

main()
