package main

// Loading of the code under verification and the mapping from Go types to SMT sorts.

import (
	"fmt"
	"go/ast"
	"go/constant"
	"go/token"
	"go/types"
	"os"
	"sort"
	"strings"

	"golang.org/x/tools/go/packages"
	"golang.org/x/tools/go/ssa"
	"golang.org/x/tools/go/ssa/ssautil"
)

type StructInfo struct {
	Name   string // SMT datatype name
	Key    string
	Go     *types.Struct
	Fields []StructField
}

type StructField struct {
	Name string
	Sort string
	Go   types.Type
}

type Ctx struct {
	Repo    string
	ModPath string
	Fset    *token.FileSet
	Pkgs    []*packages.Package
	Prog    *ssa.Program
	SsaPkgs map[string]*ssa.Package
	TPkgs   map[string]*types.Package // by import path, including dependencies
	ByName  map[string][]*types.Package
	Specs   *Specs

	structs     map[string]*StructInfo
	structOrder []*StructInfo
	heapDecls   map[string]string // heap name -> sort
	heapVers    map[string]string // declared epoch constants "name!eK" -> sort
	strConsts   map[string]string // string literal -> SMT constant name
	errConsts   map[string]bool   // error sentinel constants
	funcsByKey  map[string]*ssa.Function
	extraDecls  []string
	extraSeen   map[string]bool

	constGlobals map[string]*T
	opaque       map[string]*opaqueInfo // opaque spec functions: declaration and definitional axiom
	allFuncs     map[*ssa.Function]bool
}

func Load(repo string) (*Ctx, error) {
	cfg := &packages.Config{Mode: packages.LoadAllSyntax, Dir: repo, BuildFlags: []string{"-tags=verif"},
		// the sandbox is offline: never let the go command try the network, whatever the caller's environment
		Env: append(os.Environ(), "GOFLAGS=-mod=mod", "GOPROXY=off", "GOSUMDB=off", "GOTOOLCHAIN=local")}
	pkgs, err := packages.Load(cfg, "./...")
	if err != nil {
		return nil, err
	}
	var errs []string
	packages.Visit(pkgs, nil, func(p *packages.Package) {
		for _, e := range p.Errors {
			errs = append(errs, e.Error())
		}
	})
	if len(errs) > 0 {
		return nil, fmt.Errorf("package load errors:\n%s", strings.Join(errs, "\n"))
	}
	prog, _ := ssautil.AllPackages(pkgs, ssa.NaiveForm)
	prog.Build()
	c := &Ctx{Repo: repo, Prog: prog, Pkgs: pkgs, SsaPkgs: map[string]*ssa.Package{}, TPkgs: map[string]*types.Package{}, ByName: map[string][]*types.Package{},
		structs: map[string]*StructInfo{}, heapDecls: map[string]string{}, heapVers: map[string]string{}, strConsts: map[string]string{}, errConsts: map[string]bool{}, funcsByKey: map[string]*ssa.Function{}, extraSeen: map[string]bool{}}
	if len(pkgs) > 0 {
		c.Fset = pkgs[0].Fset
	}
	for _, p := range prog.AllPackages() {
		c.SsaPkgs[p.Pkg.Path()] = p
		c.TPkgs[p.Pkg.Path()] = p.Pkg
		c.ByName[p.Pkg.Name()] = append(c.ByName[p.Pkg.Name()], p.Pkg)
	}
	// module path = shortest package path among roots
	for _, p := range pkgs {
		if c.ModPath == "" || len(p.PkgPath) < len(c.ModPath) {
			c.ModPath = p.PkgPath
		}
	}
	for fn := range ssautil.AllFunctions(prog) {
		if fn.Pkg == nil && fn.Parent() == nil {
			continue
		}
		c.funcsByKey[funcKey(fn)] = fn
	}
	return c, nil
}

// funcKey is the name under which a function's contract is looked up:
// <import path>.<receiver type>.<name>, anonymous functions as <...>.<outer>$k.
func funcKey(fn *ssa.Function) string {
	root := fn
	for root.Parent() != nil {
		root = root.Parent()
	}
	pkg := ""
	if root.Pkg != nil {
		pkg = root.Pkg.Pkg.Path()
	} else if root.Object() != nil && root.Object().Pkg() != nil {
		pkg = root.Object().Pkg().Path()
	}
	recv := ""
	if sig := root.Signature; sig != nil && sig.Recv() != nil {
		t := sig.Recv().Type()
		if p, ok := t.(*types.Pointer); ok {
			t = p.Elem()
		}
		if n, ok := t.(*types.Named); ok {
			recv = n.Obj().Name()
		}
	}
	k := pkg + "."
	if recv != "" {
		k += recv + "."
	}
	return k + fn.Name()
}

func shortKey(c *Ctx, key string) string {
	return strings.TrimPrefix(strings.TrimPrefix(key, c.ModPath+"/"), c.ModPath+".")
}

func under(t types.Type) types.Type {
	for {
		switch x := t.(type) {
		case *types.Named:
			t = x.Underlying()
		case *types.Alias:
			t = types.Unalias(x)
		default:
			return t
		}
	}
}

func isUnsigned(t types.Type) bool {
	b, ok := under(t).(*types.Basic)
	return ok && b.Info()&types.IsUnsigned != 0
}

func isInteger(t types.Type) bool {
	b, ok := under(t).(*types.Basic)
	return ok && b.Info()&types.IsInteger != 0
}

func intWidth(t types.Type) int {
	b, ok := under(t).(*types.Basic)
	if !ok {
		return 0
	}
	switch b.Kind() {
	case types.Int8, types.Uint8:
		return 8
	case types.Int16, types.Uint16:
		return 16
	case types.Int32, types.Uint32:
		return 32
	case types.Int64, types.Uint64, types.Int, types.Uint, types.Uintptr, types.UntypedInt, types.UntypedRune:
		return 64
	}
	return 0
}

func (c *Ctx) structKey(t types.Type) string {
	if n, ok := t.(*types.Named); ok {
		p := ""
		if n.Obj().Pkg() != nil {
			p = n.Obj().Pkg().Name() + "_"
		}
		return p + n.Obj().Name()
	}
	return "anon_" + sanitize(types.TypeString(t, func(p *types.Package) string { return p.Name() }))
}

func (c *Ctx) StructOf(t types.Type) *StructInfo {
	t = types.Unalias(t)
	st, ok := under(t).(*types.Struct)
	if !ok {
		panic("StructOf: not a struct: " + t.String())
	}
	key := c.structKey(t)
	if si, ok := c.structs[key]; ok {
		return si
	}
	si := &StructInfo{Name: "S_" + key, Key: key, Go: st}
	c.structs[key] = si
	for i := 0; i < st.NumFields(); i++ {
		f := st.Field(i)
		name := f.Name()
		if name == "_" {
			name = fmt.Sprintf("_blank%d", i) // blank fields (sync/atomic's noCopy/align64) need distinct accessor names
		}
		si.Fields = append(si.Fields, StructField{Name: name, Sort: c.SortOf(f.Type()), Go: f.Type()})
	}
	c.structOrder = append(c.structOrder, si) // dependencies were appended first by the recursion above
	return si
}

func (c *Ctx) SortOf(t types.Type) string {
	switch x := under(t).(type) {
	case *types.Basic:
		switch {
		case x.Info()&types.IsBoolean != 0:
			return SBool
		case x.Info()&types.IsInteger != 0:
			return BV(intWidth(x))
		case x.Info()&types.IsString != 0:
			return SStr
		case x.Info()&types.IsFloat != 0:
			return SFloat
		case x.Kind() == types.UnsafePointer || x.Kind() == types.UntypedNil:
			return SInt
		}
	case *types.Pointer, *types.Interface, *types.Map, *types.Chan, *types.Signature:
		return SInt
	case *types.Slice:
		return SSlice
	case *types.Array:
		return ArraySort(BV(64), c.SortOf(x.Elem()))
	case *types.Struct:
		return c.StructOf(t).Name
	case *types.Tuple:
		return "Tuple"
	}
	panic("SortOf: unsupported type " + t.String())
}

func (c *Ctx) ZeroOfSort(sort string) T {
	switch {
	case sort == SBool:
		return False
	case sort == SInt:
		return Nil
	case sort == SSlice:
		return NilSlice
	case sort == SStr:
		return T{"str_empty", SStr}
	case sort == SFloat:
		return T{"flt_zero", SFloat}
	case isBV(sort):
		return bvConst(0, bvWidth(sort))
	case strings.HasPrefix(sort, "(Array "):
		_, elem, _ := arrayParts(sort)
		return ConstArray(sort, c.ZeroOfSort(elem))
	case strings.HasPrefix(sort, "S_"):
		for _, si := range c.structOrder {
			if si.Name == sort {
				var args []T
				for _, f := range si.Fields {
					args = append(args, c.ZeroOfSort(f.Sort))
				}
				if len(args) == 0 {
					return T{"mk_" + si.Name, sort}
				}
				return App("mk_"+si.Name, sort, args...)
			}
		}
	}
	panic("ZeroOfSort: " + sort)
}

func (c *Ctx) Zero(t types.Type) T { return c.ZeroOfSort(c.SortOf(t)) }

// struct value helpers
func (c *Ctx) FieldOf(si *StructInfo, v T, i int) T {
	// projection of a constructor application
	if strings.HasPrefix(v.S, "(mk_"+si.Name+" ") {
		p := splitSexp(v.S)
		if len(p) == len(si.Fields)+1 {
			return T{p[i+1], si.Fields[i].Sort}
		}
	}
	return App(si.Name+"_"+sanitize(si.Fields[i].Name), si.Fields[i].Sort, v)
}

func (c *Ctx) WithField(si *StructInfo, v T, i int, nv T) T {
	args := make([]T, len(si.Fields))
	for k := range si.Fields {
		if k == i {
			args[k] = nv
		} else {
			args[k] = c.FieldOf(si, v, k)
		}
	}
	return App("mk_"+si.Name, si.Name, args...)
}

func (c *Ctx) MkStruct(si *StructInfo, args []T) T {
	if len(args) == 0 {
		return T{"mk_" + si.Name, si.Name}
	}
	return App("mk_"+si.Name, si.Name, args...)
}

// ---- heap names ---------------------------------------------------------------------------

func (c *Ctx) declHeap(name, sort string) {
	if old, ok := c.heapDecls[name]; ok && old != sort {
		panic(fmt.Sprintf("heap %s declared with sorts %s and %s", name, old, sort))
	}
	c.heapDecls[name] = sort
}

// HeapEpoch names the value a heap has when it was not touched since the last havoc-all (epoch).
func (c *Ctx) HeapEpoch(name, sort string, epoch int) T {
	c.declHeap(name, sort)
	n := fmt.Sprintf("%s!e%d", name, epoch)
	c.heapVers[n] = sort
	return T{n, sort}
}

func (c *Ctx) FieldHeap(structT types.Type, i int) (string, string) {
	si := c.StructOf(structT)
	name := "F_" + si.Key + "_" + sanitize(si.Fields[i].Name)
	sort := ArraySort(SInt, si.Fields[i].Sort)
	c.declHeap(name, sort)
	return name, sort
}

func (c *Ctx) ElemHeap(elemSort string) (string, string) {
	name := "A_" + sanitize(elemSort)
	sort := ArraySort(SInt, ArraySort(BV(64), elemSort))
	c.declHeap(name, sort)
	return name, sort
}

func (c *Ctx) BoxHeap(sort string) (string, string) {
	name := "B_" + sanitize(sort)
	hs := ArraySort(SInt, sort)
	c.declHeap(name, hs)
	return name, hs
}

func (c *Ctx) GlobalHeap(g *ssa.Global) (string, string) {
	name := "G_" + g.Pkg.Pkg.Name() + "_" + g.Name()
	sort := c.SortOf(g.Type().(*types.Pointer).Elem())
	c.declHeap(name, sort)
	return name, sort
}

func (c *Ctx) StrConst(s string) T {
	if s == "" {
		return T{"str_empty", SStr}
	}
	if n, ok := c.strConsts[s]; ok {
		return T{n, SStr}
	}
	n := fmt.Sprintf("strc_%d_%s", len(c.strConsts), sanitize(s))
	if len(n) > 40 {
		n = n[:40]
	}
	c.strConsts[s] = n
	return T{n, SStr}
}

func (c *Ctx) ErrConst(pkg, name string) T {
	n := "errc_" + sanitize(pkg) + "_" + name
	c.errConsts[n] = true
	return T{n, SInt}
}

func (c *Ctx) Decl(key, decl string) {
	if !c.extraSeen[key] {
		c.extraSeen[key] = true
		c.extraDecls = append(c.extraDecls, decl)
	}
}

// Prelude is the part of every query that does not depend on the path.
func (c *Ctx) Prelude() string {
	var b strings.Builder
	b.WriteString("(set-option :produce-models true)\n(set-logic ALL)\n")
	b.WriteString("(declare-sort Str 0)\n(declare-sort Flt 0)\n")
	b.WriteString("(declare-datatypes ((Slice 0)) (((mk_slice (sl_arr Int) (sl_off (_ BitVec 64)) (sl_len (_ BitVec 64)) (sl_cap (_ BitVec 64))))))\n")
	b.WriteString("(declare-const str_empty Str)\n(declare-const flt_zero Flt)\n")
	b.WriteString("(declare-fun str_len (Str) (_ BitVec 64))\n(declare-fun str_cat (Str Str) Str)\n")
	b.WriteString("(assert (= (str_len str_empty) #x0000000000000000))\n")
	b.WriteString("(assert (forall ((a Str) (b Str)) (! (= (str_len (str_cat a b)) (bvadd (str_len a) (str_len b))) :pattern ((str_cat a b)))))\n")
	b.WriteString("(declare-fun str_suffix (Str Str) Str)\n")
	b.WriteString("(assert (forall ((a Str) (b Str)) (! (= (str_suffix a (str_cat a b)) b) :pattern ((str_cat a b)))))\n")
	b.WriteString("(declare-fun ipa (Int Int) Int)\n(declare-fun ipa_owner (Int) Int)\n(declare-fun ipa_field (Int) Int)\n")
	b.WriteString("(assert (forall ((p Int) (k Int)) (! (and (= (ipa_owner (ipa p k)) p) (= (ipa_field (ipa p k)) k) (< (ipa p k) 0)) :pattern ((ipa p k)))))\n")
	for _, si := range c.structOrder {
		fmt.Fprintf(&b, "(declare-datatypes ((%s 0)) (((mk_%s", si.Name, si.Name)
		for _, f := range si.Fields {
			fmt.Fprintf(&b, " (%s_%s %s)", si.Name, sanitize(f.Name), f.Sort)
		}
		b.WriteString("))))\n")
	}
	var names []string
	for n := range c.heapVers {
		names = append(names, n)
	}
	sort.Strings(names)
	for _, n := range names {
		fmt.Fprintf(&b, "(declare-const %s %s)\n", n, c.heapVers[n])
	}
	var strs []string
	for _, n := range c.strConsts {
		strs = append(strs, n)
	}
	sort.Strings(strs)
	for _, n := range strs {
		fmt.Fprintf(&b, "(declare-const %s Str)\n", n)
	}
	if len(strs) > 0 {
		fmt.Fprintf(&b, "(assert (distinct str_empty %s))\n", strings.Join(strs, " "))
	}
	for lit, n := range c.strConsts {
		fmt.Fprintf(&b, "(assert (= (str_len %s) %s))\n", n, bvConst(uint64(len(lit)), 64).S)
	}
	var errs []string
	for n := range c.errConsts {
		errs = append(errs, n)
	}
	sort.Strings(errs)
	for _, n := range errs {
		fmt.Fprintf(&b, "(declare-const %s Int)\n", n)
	}
	for i, n := range errs {
		// sentinel errors are distinct, non-nil, and are not heap references: negative numbers
		fmt.Fprintf(&b, "(assert (= %s (- %d)))\n", n, i+1)
	}
	for _, d := range c.extraDecls {
		b.WriteString(d)
		b.WriteString("\n")
	}
	return b.String()
}

func constToT(c *Ctx, v constant.Value, t types.Type) (T, bool) {
	switch under(t).(type) {
	case *types.Basic:
		b := under(t).(*types.Basic)
		switch {
		case b.Info()&types.IsBoolean != 0:
			if constant.BoolVal(v) {
				return True, true
			}
			return False, true
		case b.Info()&types.IsInteger != 0:
			bi, ok := constant.Val(constant.ToInt(v)).(interface{ String() string })
			_ = bi
			iv := constant.ToInt(v)
			if iv.Kind() != constant.Int {
				return T{}, false
			}
			bg, _ := newBig(iv)
			_ = ok
			return bvConstBig(bg, intWidth(b)), true
		case b.Info()&types.IsString != 0:
			return c.StrConst(constant.StringVal(v)), true
		case b.Info()&types.IsFloat != 0:
			name := "fltc_" + sanitize(v.ExactString())
			c.Decl(name, fmt.Sprintf("(declare-const %s Flt)", name))
			return T{name, SFloat}, true
		}
	}
	return T{}, false
}

// ---- immutable package-level variables ------------------------------------------------------
//
// A package-level array variable that is initialised with a composite literal of constants and
// is never assigned outside the package initialiser is treated as the constant it is. The value
// is taken from the syntax of the current tree, so changing the literal changes every obligation
// that depends on it.

func rootGlobal(v ssa.Value) *ssa.Global {
	for {
		switch x := v.(type) {
		case *ssa.Global:
			return x
		case *ssa.FieldAddr:
			v = x.X
		case *ssa.IndexAddr:
			v = x.X
		default:
			return nil
		}
	}
}

func (c *Ctx) ConstGlobal(pkgPath, name string) (T, bool) {
	key := pkgPath + "." + name
	if c.constGlobals == nil {
		c.constGlobals = map[string]*T{}
	}
	if t, ok := c.constGlobals[key]; ok {
		if t == nil {
			return T{}, false
		}
		return *t, true
	}
	c.constGlobals[key] = nil
	sp := c.SsaPkgs[pkgPath]
	if sp == nil {
		return T{}, false
	}
	g, ok := sp.Members[name].(*ssa.Global)
	if !ok {
		return T{}, false
	}
	// immutability: no store through the global outside init, address never escapes
	for fn := range ssautilAll(c) {
		if fn.Pkg != sp && fn.Pkg != nil {
			// unexported globals cannot be reached from other packages; exported ones are not treated as constants
			if g.Object() != nil && g.Object().Exported() {
				return T{}, false
			}
			continue
		}
		if fn.Name() == "init" || strings.HasPrefix(fn.Name(), "init#") {
			continue
		}
		for _, b := range fn.Blocks {
			for _, in := range b.Instrs {
				switch x := in.(type) {
				case *ssa.Store:
					if rootGlobal(x.Addr) == g {
						return T{}, false
					}
					if rootGlobal(x.Val) == g {
						return T{}, false
					}
				case *ssa.Call:
					for _, a := range x.Call.Args {
						if rootGlobal(a) == g {
							return T{}, false
						}
					}
				}
			}
		}
	}
	// value from the syntax
	var pkg *packages.Package
	packages.Visit(c.Pkgs, nil, func(p *packages.Package) {
		if p.PkgPath == pkgPath {
			pkg = p
		}
	})
	if pkg == nil {
		return T{}, false
	}
	at, ok := under(g.Type().(*types.Pointer).Elem()).(*types.Array)
	if !ok || !isInteger(at.Elem()) {
		return T{}, false
	}
	for _, f := range pkg.Syntax {
		for _, d := range f.Decls {
			gd, ok := d.(*ast.GenDecl)
			if !ok {
				continue
			}
			for _, s := range gd.Specs {
				vs, ok := s.(*ast.ValueSpec)
				if !ok {
					continue
				}
				for i, n := range vs.Names {
					if n.Name != name || pkg.TypesInfo.Defs[n] != g.Object() || i >= len(vs.Values) {
						continue
					}
					cl, ok := vs.Values[i].(*ast.CompositeLit)
					if !ok {
						return T{}, false
					}
					sort := c.SortOf(at)
					val := c.ZeroOfSort(sort)
					w := intWidth(at.Elem())
					for k, e := range cl.Elts {
						if _, isKV := e.(*ast.KeyValueExpr); isKV {
							return T{}, false
						}
						tv, ok := pkg.TypesInfo.Types[e]
						if !ok || tv.Value == nil {
							return T{}, false
						}
						bi, ok := newBig(constant.ToInt(tv.Value))
						if !ok {
							return T{}, false
						}
						val = Store(val, bvConst(uint64(k), 64), bvConstBig(bi, w))
					}
					c.constGlobals[key] = &val
					return val, true
				}
			}
		}
	}
	return T{}, false
}

func ssautilAll(c *Ctx) map[*ssa.Function]bool {
	if c.allFuncs == nil {
		c.allFuncs = ssautil.AllFunctions(c.Prog)
	}
	return c.allFuncs
}

// heapSort returns the declared sort of a heap.
func (c *Ctx) heapSort(name string) (string, bool) {
	s, ok := c.heapDecls[name]
	return s, ok
}
