package main

// Parser for the contract expression language (Go expressions plus ==>, <==>, forall/exists, old()).

import (
	"fmt"
	"math/big"
	"strings"
)

type Expr interface{}

type (
	EIdent struct{ Name string }
	EInt   struct{ V *big.Int }
	EStr   struct{ V string }
	EBool  struct{ V bool }
	ENil   struct{}
	EUnary struct {
		Op string
		X  Expr
	}
	EBinary struct {
		Op   string
		X, Y Expr
	}
	ECall struct {
		Fun  Expr
		Args []Expr
	}
	EIndex struct{ X, I Expr }
	ESlice struct{ X, Lo, Hi Expr }
	ESel   struct {
		X    Expr
		Name string
	}
	EQuant struct {
		Forall bool
		Vars   []QVar
		Body   Expr
	}
	EOld     struct{ X Expr }
	ECompLit struct{ Type *TypeExpr }
	EType    struct{ Type *TypeExpr } // a type used as a conversion callee, e.g. []byte(x) (rare)
)

type QVar struct {
	Name string
	Type *TypeExpr
}

// TypeExpr is the syntax of a type in a contract: ident, pkg.ident, *T, []T, [N]T, map[K]V.
type TypeExpr struct {
	Kind string // "name", "ptr", "slice", "array", "map"
	Name string // for "name": possibly qualified
	N    Expr   // array length
	Key  *TypeExpr
	Elem *TypeExpr
}

func (t *TypeExpr) String() string {
	switch t.Kind {
	case "name":
		return t.Name
	case "ptr":
		return "*" + t.Elem.String()
	case "slice":
		return "[]" + t.Elem.String()
	case "array":
		return "[N]" + t.Elem.String()
	case "map":
		return "map[" + t.Key.String() + "]" + t.Elem.String()
	}
	return "?"
}

type tok struct {
	kind string // "id", "int", "str", "op", "eof"
	text string
	pos  int
}

type lexer struct {
	src  string
	toks []tok
}

var ops3 = []string{"<==>", "==>", "&^=", "<<=", ">>="}
var ops2 = []string{"::", "&&", "||", "==", "!=", "<=", ">=", "<<", ">>", "&^"}

func lex(src string) ([]tok, error) {
	var toks []tok
	i := 0
	for i < len(src) {
		c := src[i]
		switch {
		case c == ' ' || c == '\t' || c == '\n':
			i++
		case c >= '0' && c <= '9':
			j := i
			if c == '0' && i+1 < len(src) && (src[i+1] == 'x' || src[i+1] == 'X') {
				j = i + 2
				for j < len(src) && strings.ContainsRune("0123456789abcdefABCDEF_", rune(src[j])) {
					j++
				}
			} else {
				for j < len(src) && (src[j] >= '0' && src[j] <= '9' || src[j] == '_') {
					j++
				}
			}
			toks = append(toks, tok{"int", src[i:j], i})
			i = j
		case c == '_' || c >= 'a' && c <= 'z' || c >= 'A' && c <= 'Z':
			j := i
			for j < len(src) && (src[j] == '_' || src[j] == '$' || src[j] == '#' || src[j] >= 'a' && src[j] <= 'z' || src[j] >= 'A' && src[j] <= 'Z' || src[j] >= '0' && src[j] <= '9') {
				j++
			}
			toks = append(toks, tok{"id", src[i:j], i})
			i = j
		case c == '"':
			j := i + 1
			for j < len(src) && src[j] != '"' {
				if src[j] == '\\' {
					j++
				}
				j++
			}
			if j >= len(src) {
				return nil, fmt.Errorf("unterminated string at %d", i)
			}
			toks = append(toks, tok{"str", src[i+1 : j], i})
			i = j + 1
		case c == '\'':
			// char literal -> int
			j := strings.IndexByte(src[i+1:], '\'')
			if j < 0 {
				return nil, fmt.Errorf("unterminated char at %d", i)
			}
			body := src[i+1 : i+1+j]
			var v int
			if len(body) == 1 {
				v = int(body[0])
			} else if strings.HasPrefix(body, "\\x") {
				fmt.Sscanf(body[2:], "%x", &v)
			} else {
				return nil, fmt.Errorf("unsupported char literal %q", body)
			}
			toks = append(toks, tok{"int", fmt.Sprint(v), i})
			i += j + 2
		default:
			matched := false
			for _, group := range [][]string{ops3, ops2} {
				for _, op := range group {
					if strings.HasPrefix(src[i:], op) {
						toks = append(toks, tok{"op", op, i})
						i += len(op)
						matched = true
						break
					}
				}
				if matched {
					break
				}
			}
			if matched {
				continue
			}
			if strings.ContainsRune("+-*/%&|^!<>()[]{}.,:?=", rune(c)) {
				toks = append(toks, tok{"op", string(c), i})
				i++
				continue
			}
			return nil, fmt.Errorf("unexpected character %q at %d in %q", c, i, src)
		}
	}
	toks = append(toks, tok{"eof", "", len(src)})
	return toks, nil
}

type parser struct {
	toks []tok
	p    int
	src  string
}

func ParseExpr(src string) (e Expr, err error) {
	toks, err := lex(src)
	if err != nil {
		return nil, err
	}
	ps := &parser{toks: toks, src: src}
	defer func() {
		if r := recover(); r != nil {
			if pe, ok := r.(parseErr); ok {
				err = fmt.Errorf("%s (in %q)", string(pe), src)
				return
			}
			panic(r)
		}
	}()
	e = ps.expr()
	if ps.peek().kind != "eof" {
		ps.fail("unexpected %q", ps.peek().text)
	}
	return e, nil
}

func ParseType(src string) (t *TypeExpr, err error) {
	toks, err := lex(src)
	if err != nil {
		return nil, err
	}
	ps := &parser{toks: toks, src: src}
	defer func() {
		if r := recover(); r != nil {
			if pe, ok := r.(parseErr); ok {
				err = fmt.Errorf("%s (in %q)", string(pe), src)
				return
			}
			panic(r)
		}
	}()
	t = ps.typeExpr()
	if ps.peek().kind != "eof" {
		ps.fail("unexpected %q after type", ps.peek().text)
	}
	return t, nil
}

type parseErr string

func (ps *parser) fail(f string, a ...interface{}) {
	panic(parseErr(fmt.Sprintf("parse error at %d: ", ps.peek().pos) + fmt.Sprintf(f, a...)))
}
func (ps *parser) peek() tok { return ps.toks[ps.p] }
func (ps *parser) next() tok { t := ps.toks[ps.p]; ps.p++; return t }
func (ps *parser) isOp(s string) bool {
	t := ps.peek()
	return t.kind == "op" && t.text == s
}
func (ps *parser) accept(s string) bool {
	if ps.isOp(s) {
		ps.p++
		return true
	}
	return false
}
func (ps *parser) expect(s string) {
	if !ps.accept(s) {
		ps.fail("expected %q, got %q", s, ps.peek().text)
	}
}

func (ps *parser) expr() Expr {
	t := ps.peek()
	if t.kind == "id" && (t.text == "forall" || t.text == "exists") {
		ps.next()
		q := &EQuant{Forall: t.text == "forall"}
		for {
			name := ps.next()
			if name.kind != "id" {
				ps.fail("expected bound variable name")
			}
			ty := ps.typeExpr()
			q.Vars = append(q.Vars, QVar{name.text, ty})
			if !ps.accept(",") {
				break
			}
		}
		ps.expect("::")
		q.Body = ps.expr()
		return q
	}
	return ps.iff()
}

func (ps *parser) iff() Expr {
	x := ps.implies()
	for ps.accept("<==>") {
		y := ps.implies()
		x = &EBinary{"<==>", x, y}
	}
	return x
}

func (ps *parser) implies() Expr {
	x := ps.or()
	if ps.accept("==>") {
		var y Expr
		t := ps.peek()
		if t.kind == "id" && (t.text == "forall" || t.text == "exists") {
			y = ps.expr()
		} else {
			y = ps.implies()
		}
		return &EBinary{"==>", x, y}
	}
	return x
}

func (ps *parser) or() Expr {
	x := ps.and()
	for ps.accept("||") {
		x = &EBinary{"||", x, ps.and()}
	}
	return x
}

func (ps *parser) and() Expr {
	x := ps.cmp()
	for ps.accept("&&") {
		t := ps.peek()
		if t.kind == "id" && (t.text == "forall" || t.text == "exists") {
			x = &EBinary{"&&", x, ps.expr()}
			return x
		}
		x = &EBinary{"&&", x, ps.cmp()}
	}
	return x
}

func (ps *parser) cmp() Expr {
	x := ps.add()
	for {
		t := ps.peek()
		if t.kind == "op" {
			switch t.text {
			case "==", "!=", "<", "<=", ">", ">=":
				ps.next()
				x = &EBinary{t.text, x, ps.add()}
				continue
			}
		}
		return x
	}
}

func (ps *parser) add() Expr {
	x := ps.mul()
	for {
		t := ps.peek()
		if t.kind == "op" {
			switch t.text {
			case "+", "-", "|", "^":
				ps.next()
				x = &EBinary{t.text, x, ps.mul()}
				continue
			}
		}
		return x
	}
}

func (ps *parser) mul() Expr {
	x := ps.unary()
	for {
		t := ps.peek()
		if t.kind == "op" {
			switch t.text {
			case "*", "/", "%", "<<", ">>", "&", "&^":
				ps.next()
				x = &EBinary{t.text, x, ps.unary()}
				continue
			}
		}
		return x
	}
}

func (ps *parser) unary() Expr {
	t := ps.peek()
	if t.kind == "op" {
		switch t.text {
		case "!", "-", "^":
			ps.next()
			return &EUnary{t.text, ps.unary()}
		}
	}
	return ps.postfix()
}

func (ps *parser) postfix() Expr {
	x := ps.primary()
	for {
		switch {
		case ps.accept("."):
			n := ps.next()
			if n.kind != "id" {
				ps.fail("expected field name after '.'")
			}
			x = &ESel{x, n.text}
		case ps.accept("("):
			var args []Expr
			if !ps.isOp(")") {
				for {
					args = append(args, ps.expr())
					if !ps.accept(",") {
						break
					}
				}
			}
			ps.expect(")")
			if id, ok := x.(*EIdent); ok && id.Name == "old" {
				if len(args) != 1 {
					ps.fail("old takes one argument")
				}
				x = &EOld{args[0]}
			} else {
				x = &ECall{x, args}
			}
		case ps.isOp("["):
			ps.next()
			var lo, hi Expr
			if ps.isOp(":") {
				ps.next()
				if !ps.isOp("]") {
					hi = ps.expr()
				}
				ps.expect("]")
				x = &ESlice{x, nil, hi}
				continue
			}
			lo = ps.expr()
			if ps.accept(":") {
				if !ps.isOp("]") {
					hi = ps.expr()
				}
				ps.expect("]")
				x = &ESlice{x, lo, hi}
				continue
			}
			ps.expect("]")
			x = &EIndex{x, lo}
		case ps.isOp("{"):
			// composite zero literal T{}
			id, ok := x.(*EIdent)
			if !ok {
				return x
			}
			if ps.toks[ps.p+1].kind == "op" && ps.toks[ps.p+1].text == "}" {
				ps.p += 2
				x = &ECompLit{&TypeExpr{Kind: "name", Name: id.Name}}
			} else {
				return x
			}
		default:
			return x
		}
	}
}

func (ps *parser) primary() Expr {
	t := ps.next()
	switch t.kind {
	case "int":
		s := strings.ReplaceAll(t.text, "_", "")
		v := new(big.Int)
		var ok bool
		if strings.HasPrefix(s, "0x") || strings.HasPrefix(s, "0X") {
			_, ok = v.SetString(s[2:], 16)
		} else {
			_, ok = v.SetString(s, 10)
		}
		if !ok {
			ps.fail("bad integer %q", t.text)
		}
		return &EInt{v}
	case "str":
		return &EStr{t.text}
	case "id":
		switch t.text {
		case "true":
			return &EBool{true}
		case "false":
			return &EBool{false}
		case "nil":
			return &ENil{}
		}
		return &EIdent{t.text}
	case "op":
		switch t.text {
		case "(":
			e := ps.expr()
			ps.expect(")")
			return e
		case "[":
			// slice/array type used as conversion: []byte(x)
			ps.p--
			ty := ps.typeExpr()
			return &EType{ty}
		}
	}
	ps.fail("unexpected %q", t.text)
	return nil
}

func (ps *parser) typeExpr() *TypeExpr {
	switch {
	case ps.accept("*"):
		return &TypeExpr{Kind: "ptr", Elem: ps.typeExpr()}
	case ps.accept("["):
		if ps.accept("]") {
			return &TypeExpr{Kind: "slice", Elem: ps.typeExpr()}
		}
		n := ps.expr()
		ps.expect("]")
		return &TypeExpr{Kind: "array", N: n, Elem: ps.typeExpr()}
	}
	t := ps.next()
	if t.kind != "id" {
		ps.fail("expected type, got %q", t.text)
	}
	if t.text == "map" {
		ps.expect("[")
		k := ps.typeExpr()
		ps.expect("]")
		return &TypeExpr{Kind: "map", Key: k, Elem: ps.typeExpr()}
	}
	name := t.text
	if ps.isOp(".") && ps.toks[ps.p+1].kind == "id" {
		ps.next()
		name += "." + ps.next().text
	}
	return &TypeExpr{Kind: "name", Name: name}
}
