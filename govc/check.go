package main

// The registered checks: `govc check -property Cxx -tier quick|thorough`.

import (
	"encoding/json"
	"flag"
	"fmt"
	"os"
	"path/filepath"
	"regexp"
	"sort"
	"strings"
	"time"
)

type KnownFinding struct {
	Property   string `json:"property"`
	Obligation string `json:"obligation"`
	Status     string `json:"status"` // "finding" or "fixed"
	What       string `json:"what"`
	History    string `json:"history,omitempty"`
	Commit     string `json:"commit,omitempty"`
	Line       string `json:"line,omitempty"`
}

type Evidence struct {
	PropertyID  string                 `json:"property_id"`
	Tier        string                 `json:"tier"`
	Seed        int                    `json:"seed"`
	Level       string                 `json:"level"`
	Coverage    map[string]interface{} `json:"coverage"`
	Assumptions []string               `json:"assumptions"`
	WallS       float64                `json:"wall_s"`
	Violations  int                    `json:"violations"`
}

func loadKnown(vdir string) []KnownFinding {
	var k struct {
		Findings []KnownFinding `json:"findings"`
	}
	b, err := os.ReadFile(filepath.Join(vdir, "known_findings.json"))
	if err != nil {
		return nil
	}
	if err := json.Unmarshal(b, &k); err != nil {
		fmt.Fprintln(os.Stderr, "known_findings.json:", err)
		os.Exit(2)
	}
	return k.Findings
}

func loadExpected(vdir string) map[string][]string {
	m := map[string][]string{}
	b, err := os.ReadFile(filepath.Join(vdir, "obligations.expected.json"))
	if err != nil {
		return m
	}
	if err := json.Unmarshal(b, &m); err != nil {
		fmt.Fprintln(os.Stderr, "obligations.expected.json:", err)
		os.Exit(2)
	}
	return m
}

var trustedBase = []string{
	"GoVC itself (go/ssa naive-form SSA -> SMT-LIB translation written for this task), go/types, go/ssa of golang.org/x/tools v0.29.0",
	"SMT solvers z3 5.1.0, cvc5 1.0.3, z3 4.8.12 (an obligation counts as discharged when one of them answers unsat)",
	"machine model: int/uint/uintptr are 64 bit, Go integer arithmetic is exact modular bit-vector arithmetic; 32-bit targets are not covered",
	"assumed contracts of dependencies in /verif/stdlib/*.spec (listed under assumed_contracts when used)",
	"interface contracts of fs.File / fs.FileSystem / fs.LockFile in /repo/fs/verif_contracts.go are the model of the file system (sizes below 2^48, I/O errors possible on every call)",
	"bufio.Reader is modelled as an unbuffered second handle on the same file",
	"floating-point expressions are abstracted to unconstrained values",
	"model of append: the source index of an appended element lies inside the source slice and is strictly monotone in the position (pure bit-vector lemmas over slice bounds <= 2^48, /verif/lemmas/*.smt2, re-proved by lemmas/check.sh in the thorough tier of C01, not on every run)",
	"escaping locals never assigned after the entry block of their function keep their value across a callee's 'modifies *' (no pointer to them exists outside the function literals that capture them, which only read them)",
	"every slice has offset, length and capacity between 0 and 2^48; every reference held in a parameter or read from a field of a parameter at entry designates an allocated object or is nil",
}

func cmdCheck(args []string) {
	fs := flag.NewFlagSet("check", flag.ExitOnError)
	repo := fs.String("repo", "/repo", "")
	vdir := fs.String("verif", "/verif", "")
	prop := fs.String("property", "", "property id")
	tier := fs.String("tier", "quick", "quick|thorough")
	out := fs.String("out", "", "directory that receives evidence/ and replays/ (default: the -verif directory)")
	fs.Parse(args)
	if *out == "" {
		*out = *vdir
	}
	if t := os.Getenv("VERIF_TIER"); t == "quick" || t == "thorough" {
		*tier = t
	}
	if *prop == "" {
		fmt.Fprintln(os.Stderr, "check: -property required")
		os.Exit(2)
	}
	seed := envInt("VERIF_SEED", 0)
	t0 := time.Now()
	c, err := loadAll(*repo, *vdir)
	if err != nil {
		// the tree does not load (does not compile, or a contract file is malformed): the check cannot run
		fmt.Fprintln(os.Stderr, "govc: cannot load:", err)
		os.Exit(2)
	}
	loadS := time.Since(t0).Seconds()
	// per solver call; every obligation claimed discharges in a fraction of this on the unchanged tree
	timeout := 20
	if *tier == "thorough" {
		timeout = 90
	}
	cache := filepath.Join(*out, ".cache")
	if *tier == "thorough" {
		cache = "" // thorough re-solves every obligation
	}
	solver := NewSolver(filepath.Join(*out, ".work", *prop), cache, timeout, seed)
	solver.RetryFactor = 4 // quick: 20 s, then 80 s for what is left; thorough: 90 s, then 360 s
	defer os.RemoveAll(filepath.Join(*out, ".work", *prop))
	rr := verify(c, func(ct *Contract) bool { return contractMentions(ct, *prop) },
		func(name string, tags []string) bool { return hasTag(tags, *prop) }, solver, false)

	known := loadKnown(*vdir)
	expected := loadExpected(*vdir)[*prop]
	isKnown := func(name string) *KnownFinding {
		for i := range known {
			if known[i].Property == *prop && known[i].Obligation == name && known[i].Status == "finding" {
				return &known[i]
			}
		}
		return nil
	}
	type violation struct {
		name, why, detail string
		r                 *OblResult
	}
	var viols []violation
	var knownHit []string
	seen := map[string]bool{}
	nObl, nDis, nCover, nCoverOK := 0, 0, 0, 0
	var samples []interface{}
	var slowest float64
	for _, r := range rr.Results {
		seen[r.Name] = true
		if r.Cover {
			nCover++
			if r.Status == "cover-ok" {
				nCoverOK++
			} else {
				viols = append(viols, violation{r.Name, "vacuous: a precondition or path condition became contradictory", r.Detail, r})
			}
			continue
		}
		ok := r.Status == "discharged"
		if !ok {
			if kf := isKnown(r.Name); kf != nil {
				knownHit = append(knownHit, fmt.Sprintf("KNOWN-FINDING: property=%s %s: %s", *prop, r.Name, kf.What))
				continue
			}
			viols = append(viols, violation{r.Name, r.Status, r.Detail, r})
		}
		nObl++
		if ok {
			nDis++
		}
		if r.MaxPathS > slowest {
			slowest = r.MaxPathS
		}
		if len(samples) < 12 {
			samples = append(samples, map[string]interface{}{"obligation": r.Name, "status": r.Status, "paths": r.Paths, "solver": r.Solver, "solver_s": round2(r.Seconds), "query_bytes": r.QueryLen, "clause": r.Src, "where": r.Where})
		}
	}
	for _, n := range expected {
		if !seen[n] {
			if isKnown(n) != nil {
				continue
			}
			nObl++
			viols = append(viols, violation{n, "missing", "an obligation that is part of the claim was not generated (function removed, renamed, or out of the supported subset)", nil})
		}
	}
	var pk []string
	for k := range rr.Problems {
		pk = append(pk, k)
	}
	sort.Strings(pk)
	var outOfSubset []string
	for _, k := range pk {
		for _, p := range rr.Problems[k] {
			outOfSubset = append(outOfSubset, shortKey(c, k)+": "+p)
			nObl++
			viols = append(viols, violation{shortKey(c, k) + "#verifiable", "not verifiable", p, nil})
		}
	}
	// a stale known finding (obligation discharges again or no longer exists) is not an error, but is shown
	for _, kf := range known {
		if kf.Property == *prop && kf.Status == "finding" {
			hit := false
			for _, l := range knownHit {
				if strings.Contains(l, kf.Obligation+":") {
					hit = true
				}
			}
			if !hit {
				fmt.Printf("NOTE: known finding %s did not occur in this run\n", kf.Obligation)
			}
		}
	}
	for _, l := range knownHit {
		fmt.Println(l)
	}
	replayDir := filepath.Join(*out, "replays", *prop)
	if len(viols) > 0 {
		os.MkdirAll(replayDir, 0755)
	}
	for _, v := range viols {
		rp := filepath.Join(replayDir, sanitize(v.name)+".json")
		rec := map[string]interface{}{"property": *prop, "obligation": v.name, "status": v.why, "detail": v.detail}
		reproduced := false
		if v.r != nil {
			rec["clause"] = v.r.Src
			rec["where"] = v.r.Where
			rec["solver_output"] = v.r.Output
			rec["model"] = v.r.Model
			qf := filepath.Join(replayDir, sanitize(v.name)+".smt2")
			os.WriteFile(qf, []byte(v.r.Query+"(check-sat)\n(get-model)\n"), 0644)
			rec["query_file"] = qf
			if strings.HasPrefix(v.name, "shape:") && v.r.Status == "failed" {
				// a type-level obligation is decided on the real code itself (the type checker's view of /repo):
				// the differing field is the witness
				rec["replay"] = v.r.Detail
				reproduced = true
			} else if v.r.Model != "" {
				if out, ok := tryReplay(c, *vdir, *prop, v.r); out != "" {
					rec["replay"] = out
					reproduced = ok
				}
			}
		}
		rec["reproduced_on_real_code"] = reproduced
		b, _ := json.MarshalIndent(rec, "", " ")
		os.WriteFile(rp, b, 0644)
		suffix := " no-failing-input-found"
		if reproduced {
			suffix = ""
		}
		fmt.Printf("VIOLATION property=%s replay=%s obligation=%s status=%s%s\n", *prop, rp, v.name, v.why, suffix)
	}
	var assumed []string
	for k := range rr.Assumed {
		assumed = append(assumed, k)
	}
	sort.Strings(assumed)
	solverS := map[string]float64{}
	for k, v := range solver.SolverS {
		solverS[k] = round2(v)
	}
	ev := Evidence{PropertyID: *prop, Tier: *tier, Seed: seed, Level: "proof", WallS: round2(time.Since(t0).Seconds()), Violations: len(viols)}
	ev.Coverage = map[string]interface{}{
		"obligations":              nObl,
		"discharged":               nDis,
		"checker_cmd":              fmt.Sprintf("bin/govc check -property %s -tier %s", *prop, *tier),
		"trusted_base":             trustedBase,
		"samples":                  samples,
		"functions_under_contract": rr.Funcs,
		"paths_explored":           rr.NumPaths,
		"reachability_guards":      map[string]int{"generated": nCover, "reachable": nCoverOK},
		"solver_wins":              solver.Wins,
		"solver_seconds":           solverS,
		"solver_calls":             solver.Calls,
		"solver_cache_hits":        solver.Hits,
		"slowest_solver_call_s":    round2(slowest),
		"solver_timeout_s":         timeout,
		"assumed_contracts":        assumed,
		"out_of_subset":            outOfSubset,
		"known_findings":           knownHit,
		"load_s":                   round2(loadS),
		"generate_s":               round2(rr.GenS),
		"solve_wall_s":             round2(rr.SolveS),
		"integer_semantics":        "64-bit and narrower bit-vectors (exact Go wrap-around); no mathematical integers for program values",
	}
	for _, a := range assumed {
		ev.Assumptions = append(ev.Assumptions, a+": "+rr.Assumed[a])
	}
	ev.Assumptions = append(ev.Assumptions, propertyAssumptions[*prop]...)
	os.MkdirAll(filepath.Join(*out, "evidence"), 0755)
	b, _ := json.MarshalIndent(ev, "", " ")
	os.WriteFile(filepath.Join(*out, "evidence", *prop+".json"), b, 0644)
	fmt.Printf("%s: %d obligations, %d discharged, %d known findings, %d violations (%d functions, %.1fs)\n", *prop, nObl, nDis, len(knownHit), len(viols), len(rr.Funcs), time.Since(t0).Seconds())
	if len(viols) > 0 {
		os.Exit(1)
	}
	if nObl == 0 {
		fmt.Println("no obligations generated: the check is vacuous")
		os.Exit(2)
	}
}

func round2(f float64) float64 { return float64(int(f*100+0.5)) / 100 }

// per-property statements of what the obligations do not cover (kept next to the claim)
var propertyAssumptions = map[string][]string{}

var frozenKind = regexp.MustCompile(`#(ensures|inv):|#dec@|#alloc@\d+:|#at\(|^lemma:|^shape:`)

// cmdFreeze records the names of the obligations that discharge on the current tree.
func cmdFreeze(args []string) {
	fs := flag.NewFlagSet("freeze", flag.ExitOnError)
	repo := fs.String("repo", "/repo", "")
	vdir := fs.String("verif", "/verif", "")
	props := fs.String("properties", "", "comma separated property ids")
	fs.Parse(args)
	c, err := loadAll(*repo, *vdir)
	if err != nil {
		fmt.Fprintln(os.Stderr, err)
		os.Exit(2)
	}
	out := loadExpected(*vdir)
	for _, p := range strings.Split(*props, ",") {
		p = strings.TrimSpace(p)
		if p == "" {
			continue
		}
		solver := NewSolver(filepath.Join(*vdir, ".work", "freeze"), filepath.Join(*vdir, ".cache"), 10, 0)
		rr := verify(c, func(ct *Contract) bool { return contractMentions(ct, p) },
			func(name string, tags []string) bool { return hasTag(tags, p) }, solver, false)
		// Only obligations that stem from a contract clause are frozen. The zero-annotation safety
		// obligations (nil@N, slice@N, bounds@N, conv@N, pre(call@N), frame@...) are numbered by position
		// in the body: a harmless edit renumbers them, and demanding them by name would be a false alarm.
		var names []string
		for _, r := range rr.Results {
			if r.Cover || !frozenKind.MatchString(r.Name) {
				continue
			}
			names = append(names, r.Name)
		}
		sort.Strings(names)
		out[p] = names
		fmt.Printf("%s: %d obligations frozen\n", p, len(names))
	}
	os.RemoveAll(filepath.Join(*vdir, ".work", "freeze"))
	b, _ := json.MarshalIndent(out, "", " ")
	os.WriteFile(filepath.Join(*vdir, "obligations.expected.json"), b, 0644)
}

// tryReplay turns a solver model into an execution of the real function where a replay driver exists.
func tryReplay(c *Ctx, vdir, prop string, r *OblResult) (string, bool) {
	return "", false
}
