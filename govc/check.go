package main

func cmdCheck(args []string)  {}
func cmdFreeze(args []string) {}
