package main

import (
	"encoding/json"
	"flag"
	"fmt"
	"go/types"
	"os"
	"path/filepath"
	"regexp"
	"sort"
	"strconv"
	"strings"
	"sync"
	"sync/atomic"
	"time"

	"golang.org/x/tools/go/ssa"
)

type OblResult struct {
	Name     string   `json:"name"`
	Tags     []string `json:"tags,omitempty"`
	Status   string   `json:"status"` // discharged, failed, undecided, vacuous, cover-ok
	Paths    int      `json:"paths"`
	Trivial  int      `json:"trivial"`
	Solver   string   `json:"solver,omitempty"`
	Seconds  float64  `json:"seconds"`
	MaxPathS float64  `json:"max_path_s"`
	Where    string   `json:"where,omitempty"`
	Src      string   `json:"src,omitempty"`
	Cover    bool     `json:"cover,omitempty"`
	Detail   string   `json:"detail,omitempty"`
	Model    string   `json:"-"`
	Query    string   `json:"-"`
	Output   string   `json:"-"`
	QueryLen int      `json:"query_bytes,omitempty"`
}

type RunResult struct {
	Funcs     []string
	Problems  map[string][]string
	Assumed   map[string]string
	Results   []*OblResult
	Solver    *Solver
	LoadS     float64
	GenS      float64
	SolveS    float64
	NumPaths  int
	Contracts int
	Retried   int // paths decided only in the second (longer, less loaded) stage or not at all
}

func hasTag(tags []string, t string) bool {
	for _, x := range tags {
		if x == t {
			return true
		}
	}
	return false
}

func contractMentions(ct *Contract, prop string) bool {
	if hasTag(ct.Tags, prop) {
		return true
	}
	for _, cl := range ct.Requires {
		if hasTag(cl.Tags, prop) {
			return true
		}
	}
	for _, cl := range ct.Ensures {
		if hasTag(cl.Tags, prop) {
			return true
		}
	}
	for _, l := range ct.Loops {
		for _, cl := range l.Invariants {
			if hasTag(cl.Tags, prop) {
				return true
			}
		}
	}
	for _, cls := range ct.Asserts {
		for _, cl := range cls {
			if hasTag(cl.Tags, prop) {
				return true
			}
		}
	}
	return false
}

func loadAll(repo, verifDir string) (*Ctx, error) {
	c, err := Load(repo)
	if err != nil {
		return nil, err
	}
	c.Specs = NewSpecs()
	if err := c.Specs.LoadStdlibSpecs(filepath.Join(verifDir, "stdlib")); err != nil {
		return nil, err
	}
	if err := c.Specs.LoadRepoSpecs(repo, c.ModPath); err != nil {
		return nil, err
	}
	return c, nil
}

// verify generates and solves the obligations of the selected functions.
func verify(c *Ctx, sel func(ct *Contract) bool, want func(name string, tags []string) bool, solver *Solver, verbose bool) *RunResult {
	rr := &RunResult{Problems: map[string][]string{}, Assumed: map[string]string{}, Solver: solver}
	t0 := time.Now()
	var keys []string
	for k, ct := range c.Specs.Contracts {
		if ct.External || ct.Trusted {
			continue
		}
		if sel(ct) {
			keys = append(keys, k)
		}
	}
	sort.Strings(keys)
	var all []*Obligation
	for _, k := range keys {
		ct := c.Specs.Contracts[k]
		fn := c.funcsByKey[k]
		if fn == nil {
			if strings.HasPrefix(ct.Name, "spec_") || ct.Flags["funcspec"] {
				continue
			}
			rr.Problems[k] = append(rr.Problems[k], "contract for a function that does not exist (renamed or removed?)")
			continue
		}
		rr.Funcs = append(rr.Funcs, shortKey(c, k))
		ex := VerifyFunction(c, fn, ct, want)
		rr.NumPaths += ex.npaths
		if len(ex.problems) > 0 {
			rr.Problems[k] = append(rr.Problems[k], ex.problems...)
		}
		for a, why := range ex.assumed {
			rr.Assumed[a] = why
		}
		all = append(all, ex.obls...)
	}
	// lemmas
	for _, ax := range c.Specs.Axioms {
		if !ax.IsLemma {
			continue
		}
		name := "lemma:" + ax.Name
		if want != nil && !want(name, ax.Tags) {
			continue
		}
		ob := lemmaObligation(c, ax)
		if ob != nil {
			all = append(all, ob)
		}
	}
	rr.GenS = time.Since(t0).Seconds()
	t1 := time.Now()
	axioms := axiomAsserts(c)
	prelude := c.Prelude()
	withAxioms := func(q string) string {
		var b strings.Builder
		// definitions of the opaque spec functions the query mentions (transitively)
		done := map[string]bool{}
		text := q
		for changed := true; changed; {
			changed = false
			var ons []string
			for n := range c.opaque {
				ons = append(ons, n)
			}
			sort.Strings(ons)
			for _, n := range ons {
				od := c.opaque[n]
				if od == nil || done[n] || !reSym("sf_"+n).MatchString(text) {
					continue
				}
				done[n] = true
				changed = true
				b.WriteString(od.axiom)
				text += od.axiom
			}
		}
		for _, a := range axioms {
			for _, sym := range a.syms {
				if strings.Contains(text, sym) {
					b.WriteString(a.text)
					rr.Assumed["axiom:"+a.name] = a.src
					break
				}
			}
		}
		return b.String()
	}
	// group by name
	groups := map[string][]*Obligation{}
	var names []string
	for _, ob := range all {
		if _, ok := groups[ob.Name]; !ok {
			names = append(names, ob.Name)
		}
		groups[ob.Name] = append(groups[ob.Name], ob)
	}
	sort.Strings(names)
	results := make([]*OblResult, len(names))
	type job struct {
		gi int
		ob *Obligation
	}
	jobs := make(chan job, 64)
	var mu sync.Mutex
	var wg sync.WaitGroup
	for i, n := range names {
		g := groups[n]
		results[i] = &OblResult{Name: n, Tags: g[0].Tags, Paths: len(g), Status: "discharged", Where: g[0].Where, Src: g[0].Src, Cover: g[0].Cover}
		if g[0].Cover {
			results[i].Status = "vacuous"
		}
	}
	type retryJob struct {
		j job
		q string
	}
	var retry []retryJob
	// record applies the answer for one path to the result of its obligation
	record := func(r *OblResult, ob *Obligation, q string, sr SolveResult) {
		r.Seconds += sr.Seconds
		if sr.Seconds > r.MaxPathS {
			r.MaxPathS = sr.Seconds
		}
		if len(q) > r.QueryLen {
			r.QueryLen = len(q)
		}
		switch sr.Status {
		case "unsat":
			if r.Solver == "" {
				r.Solver = sr.Solver
			}
		case "sat":
			if r.Status != "failed" {
				r.Status = "failed"
				r.Src, r.Where = ob.Src, ob.Where
				r.Model = sr.Model
				r.Query = q
				r.Solver = sr.Solver
				r.Detail = fmt.Sprintf("counterexample on path %d (%s)", ob.PathID, strings.Join(sr.Tried, " "))
			}
		default:
			if r.Status == "discharged" {
				r.Status = "undecided"
				r.Src, r.Where = ob.Src, ob.Where
				r.Query = q
				r.Output = sr.Output
				r.Detail = fmt.Sprintf("no solver decided path %d (%s)", ob.PathID, strings.Join(sr.Tried, " "))
			}
		}
	}
	for w := 0; w < envInt("VERIF_WORKERS", 5); w++ {
		wg.Add(1)
		go func() {
			defer wg.Done()
			for j := range jobs {
				ob := j.ob
				r := results[j.gi]
				if ob.Cover {
					// reachable unless refuted: one non-unsat path is enough
					mu.Lock()
					already := r.Status == "cover-ok"
					mu.Unlock()
					if already {
						continue
					}
					q := strings.Join(ob.Cmds, "\n") + "\n"
					mu.Lock()
					ax := withAxioms(q)
					mu.Unlock()
					q = prelude + ax + q
					sr := solver.SolveCover(q)
					mu.Lock()
					if sr.Status != "unsat" {
						r.Status = "cover-ok"
					}
					r.Seconds += sr.Seconds
					mu.Unlock()
					continue
				}
				if ob.Goal.S == "true" {
					mu.Lock()
					r.Trivial++
					mu.Unlock()
					continue
				}
				q := strings.Join(ob.Cmds, "\n") + "\n(assert (not " + ob.Goal.S + "))\n"
				mu.Lock()
				ax := withAxioms(q)
				mu.Unlock()
				q = prelude + ax + q
				sr := solver.Solve(ob.Name, q, true)
				mu.Lock()
				if sr.Status != "unsat" && sr.Status != "sat" && solver.RetryFactor > 1 {
					// not decided within the per-call limit: decided in a second, less loaded stage below
					r.Seconds += sr.Seconds
					retry = append(retry, retryJob{j, q})
				} else {
					record(r, ob, q, sr)
				}
				mu.Unlock()
			}
		}()
	}
	for i, n := range names {
		for _, ob := range groups[n] {
			jobs <- job{i, ob}
		}
	}
	close(jobs)
	wg.Wait()
	// Second stage: paths nobody decided within the limit are tried again with a longer limit and fewer
	// queries in flight, so that a loaded machine does not turn a slow proof into an alarm. At most one
	// undecided path per obligation is retried after the obligation is already lost.
	if len(retry) > 0 {
		rs := NewSolver(solver.WorkDir, solver.CacheDir, solver.Timeout*solver.RetryFactor, solver.Seed)
		rjobs := make(chan retryJob, len(retry))
		var rwg sync.WaitGroup
		for w := 0; w < 3; w++ {
			rwg.Add(1)
			go func() {
				defer rwg.Done()
				for rj := range rjobs {
					r := results[rj.j.gi]
					mu.Lock()
					lost := r.Status != "discharged"
					mu.Unlock()
					var sr SolveResult
					if lost {
						sr = SolveResult{Status: "unknown", Tried: []string{"not retried: another path of this obligation already failed"}}
					} else {
						sr = rs.Solve(rj.j.ob.Name, rj.q, true)
					}
					mu.Lock()
					record(r, rj.j.ob, rj.q, sr)
					rr.Retried++
					mu.Unlock()
				}
			}()
		}
		for _, rj := range retry {
			rjobs <- rj
		}
		close(rjobs)
		rwg.Wait()
		solver.mu.Lock()
		solver.Calls += rs.Calls
		for k, v := range rs.Wins {
			solver.Wins[k] += v
		}
		for k, v := range rs.SolverS {
			solver.SolverS[k] += v
		}
		solver.mu.Unlock()
	}
	// struct shapes (type-level obligations, no solver)
	for _, sh := range c.Specs.Shapes {
		name := "shape:" + sh.Type
		if want != nil && !want(name, sh.Tags) {
			continue
		}
		r := &OblResult{Name: name, Tags: sh.Tags, Paths: 1, Status: "discharged", Solver: "go/types", Src: strings.TrimSpace(strings.TrimPrefix(strings.TrimSpace(sh.Src), "//@")), Where: fmt.Sprintf("%s:%d", strings.TrimPrefix(sh.File, c.Repo+"/"), sh.Line)}
		if why := checkShape(c, sh); why != "" {
			r.Status = "failed"
			r.Detail = "struct differs from the pinned shape: " + why
			r.Model = why
			r.Query = "; type-level obligation: " + r.Src + "\n; " + why + "\n"
		}
		results = append(results, r)
	}
	rr.Results = results
	rr.SolveS = time.Since(t1).Seconds()
	rr.Contracts = len(keys)
	return rr
}

// SolveCover checks reachability with a short timeout and a single solver.
func (s *Solver) SolveCover(q string) SolveResult {
	save := s.Timeout
	_ = save
	file := filepath.Join(s.WorkDir, fmt.Sprintf("cover-%d-%d.smt2", time.Now().UnixNano(), atomic.AddInt64(&fileSeq, 1)))
	os.WriteFile(file, []byte(q+"(check-sat)\n"), 0644)
	defer os.Remove(file)
	t0 := time.Now()
	out, _ := runCmd([]string{"z3-new", "-T:2", file}, 4*time.Second)
	w := firstWord(out)
	res := SolveResult{Status: "unknown", Seconds: time.Since(t0).Seconds()}
	if w == "unsat" || w == "sat" {
		res.Status = w
	}
	if w != "unsat" && w != "sat" {
		// second opinion, cvc5 is better at refuting quantified contradictions
		out2, _ := runCmd([]string{"cvc5", "--tlimit=2000", file}, 4*time.Second)
		if firstWord(out2) == "unsat" {
			res.Status = "unsat"
		}
	}
	return res
}

type axiomText struct {
	name, src, text string
	syms            []string
}

var reUF = regexp.MustCompile(`uf_[A-Za-z0-9_]+`)

// axiomAsserts renders the assumed lemmas once; each is attached to the queries that mention one of
// the uninterpreted functions it talks about.
func axiomAsserts(c *Ctx) []axiomText {
	var out []axiomText
	for _, ax := range c.Specs.Axioms {
		if ax.IsLemma {
			continue
		}
		ob := lemmaObligation(c, ax)
		if ob == nil || ob.Goal.S == "false" {
			fmt.Fprintf(os.Stderr, "axiom %s could not be evaluated: %s\n", ax.Name, ob.Src)
			os.Exit(2)
		}
		syms := map[string]bool{}
		for _, m := range reUF.FindAllString(ob.Goal.S, -1) {
			syms[m] = true
		}
		a := axiomText{name: ax.Name, src: ax.Src, text: "(assert " + ob.Goal.S + ")\n"}
		for s := range syms {
			a.syms = append(a.syms, s)
		}
		sort.Strings(a.syms)
		out = append(out, a)
	}
	return out
}

func lemmaObligation(c *Ctx, ax *Axiom) (ob *Obligation) {
	defer func() {
		if r := recover(); r != nil {
			if e, ok := r.(specErr); ok {
				fmt.Fprintf(os.Stderr, "lemma %s: %s\n", ax.Name, string(e))
				ob = &Obligation{Name: "lemma:" + ax.Name, Kind: "lemma", Tags: ax.Tags, Goal: False, Src: "contract error: " + string(e)}
				return
			}
			panic(r)
		}
	}()
	st := &State{c: c, heap: map[string]T{}, closures: map[string]*Closure{}, snaps: map[string]*Ptr{}}
	st.alloc = T{"alloc!0", SInt}
	st.cmds = append(st.cmds, "(declare-const alloc!0 Int)")
	b := 0
	ev := &Eval{c: c, pkg: c.TPkgs[ax.PkgPath], vars: map[string]SV{}, view: st, bound: &b}
	g := ev.Bool(ax.E)
	return &Obligation{Name: "lemma:" + ax.Name, Kind: "lemma", Tags: ax.Tags, Cmds: st.cmds, Goal: g, Src: ax.Src, Where: ax.File}
}

func main() {
	if len(os.Args) < 2 {
		fmt.Fprintln(os.Stderr, "usage: govc verify|check|freeze|list ...")
		os.Exit(2)
	}
	switch os.Args[1] {
	case "verify":
		cmdVerify(os.Args[2:])
	case "check":
		cmdCheck(os.Args[2:])
	case "freeze":
		cmdFreeze(os.Args[2:])
	case "ssa":
		cmdSSA(os.Args[2:])
	default:
		fmt.Fprintln(os.Stderr, "unknown command", os.Args[1])
		os.Exit(2)
	}
}

func envInt(name string, def int) int {
	if v := os.Getenv(name); v != "" {
		if n, err := strconv.Atoi(v); err == nil {
			return n
		}
	}
	return def
}

func cmdSSA(args []string) {
	fs := flag.NewFlagSet("ssa", flag.ExitOnError)
	repo := fs.String("repo", "/repo", "")
	fn := fs.String("func", "", "function key regex")
	fs.Parse(args)
	c, err := Load(*repo)
	if err != nil {
		fmt.Fprintln(os.Stderr, err)
		os.Exit(2)
	}
	re := regexp.MustCompile(*fn)
	var keys []string
	for k := range c.funcsByKey {
		if re.MatchString(k) {
			keys = append(keys, k)
		}
	}
	sort.Strings(keys)
	for _, k := range keys {
		fmt.Println("====", k)
		c.funcsByKey[k].WriteTo(os.Stdout)
	}
}

// cmdVerify: developer view — every obligation of the selected functions with its status.
func cmdVerify(args []string) {
	fs := flag.NewFlagSet("verify", flag.ExitOnError)
	repo := fs.String("repo", "/repo", "")
	vdir := fs.String("verif", "/verif", "")
	fre := fs.String("func", ".", "function key regex")
	ore := fs.String("obl", ".", "obligation name regex")
	prop := fs.String("property", "", "only obligations tagged with this property")
	timeout := fs.Int("timeout", 10, "solver timeout (s)")
	dump := fs.String("dump", "", "directory to dump failed/undecided queries")
	all := fs.Bool("all", false, "print discharged obligations too")
	fs.BoolVar(&splitGoals, "split", false, "one obligation per top-level conjunct of each goal (debugging)")
	fs.Parse(args)
	c, err := loadAll(*repo, *vdir)
	if err != nil {
		fmt.Fprintln(os.Stderr, err)
		os.Exit(2)
	}
	re := regexp.MustCompile(*fre)
	reo := regexp.MustCompile(*ore)
	solver := NewSolver(filepath.Join(*vdir, ".work"), filepath.Join(*vdir, ".cache"), *timeout, envInt("VERIF_SEED", 0))
	solver.RetryFactor = 4
	rr := verify(c, func(ct *Contract) bool {
		return re.MatchString(shortKey(c, ct.Key)) && (*prop == "" || contractMentions(ct, *prop))
	}, func(name string, tags []string) bool {
		return reo.MatchString(name) && (*prop == "" || hasTag(tags, *prop))
	}, solver, true)
	bad := 0
	for _, r := range rr.Results {
		ok := r.Status == "discharged" || r.Status == "cover-ok"
		if !ok {
			bad++
		}
		if ok && !*all {
			continue
		}
		fmt.Printf("%-11s %-70s paths=%d triv=%d %.2fs max=%.2fs %s %s\n", r.Status, r.Name, r.Paths, r.Trivial, r.Seconds, r.MaxPathS, r.Solver, r.Where)
		if !ok {
			fmt.Printf("            %s\n            %s\n", r.Src, r.Detail)
			if *dump != "" {
				os.MkdirAll(*dump, 0755)
				f := filepath.Join(*dump, sanitize(r.Name)+".smt2")
				os.WriteFile(f, []byte(r.Query+"(check-sat)\n(get-model)\n"), 0644)
				if r.Model != "" {
					os.WriteFile(f+".model", []byte(r.Model), 0644)
				}
			}
		}
	}
	var pk []string
	for k := range rr.Problems {
		pk = append(pk, k)
	}
	sort.Strings(pk)
	for _, k := range pk {
		for _, p := range rr.Problems[k] {
			fmt.Printf("PROBLEM     %s: %s\n", shortKey(c, k), p)
			bad++
		}
	}
	var ak []string
	for k := range rr.Assumed {
		ak = append(ak, k)
	}
	sort.Strings(ak)
	fmt.Printf("functions=%d obligations=%d not-ok=%d paths=%d gen=%.1fs solve=%.1fs solver-calls=%d cache-hits=%d wins=%v\n", len(rr.Funcs), len(rr.Results), bad, rr.NumPaths, rr.GenS, rr.SolveS, solver.Calls, solver.Hits, solver.Wins)
	if *all {
		for _, k := range ak {
			fmt.Printf("assumed     %s\n", k)
		}
	}
	if bad > 0 {
		os.Exit(1)
	}
}

var _ = json.Marshal
var _ *ssa.Function

var symRe = map[string]*regexp.Regexp{}

// reSym matches the SMT symbol s as a whole token.
func reSym(s string) *regexp.Regexp {
	if r, ok := symRe[s]; ok {
		return r
	}
	r := regexp.MustCompile(`[( ]` + regexp.QuoteMeta(s) + `[) ]`)
	symRe[s] = r
	return r
}

// checkShape compares the struct type named by sh with the pinned field list; "" when they agree.
func checkShape(c *Ctx, sh *Shape) string {
	pkg := c.TPkgs[sh.PkgPath]
	if pkg == nil {
		return "package " + sh.PkgPath + " not loaded"
	}
	obj := pkg.Scope().Lookup(sh.Type)
	if obj == nil {
		return "type " + sh.Type + " does not exist"
	}
	st, ok := obj.Type().Underlying().(*types.Struct)
	if !ok {
		return sh.Type + " is not a struct"
	}
	if st.NumFields() != len(sh.Fields) {
		return fmt.Sprintf("%d fields, pinned %d", st.NumFields(), len(sh.Fields))
	}
	for i, f := range sh.Fields {
		g := st.Field(i)
		ty := types.TypeString(g.Type(), func(p *types.Package) string { return p.Name() })
		if g.Name() != f[0] || ty != f[1] {
			return fmt.Sprintf("field %d is %q %s, pinned %q %s", i, g.Name(), ty, f[0], f[1])
		}
	}
	return ""
}
