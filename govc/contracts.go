package main

// Contract files: comment-only Go files in /repo (//go:build verif) and *.spec files in /verif/stdlib.
// Only lines starting with "//@" are read.

import (
	"bufio"
	"fmt"
	"os"
	"path/filepath"
	"regexp"
	"strconv"
	"strings"
)

type Clause struct {
	Kind  string
	Label string
	Tags  []string
	Src   string
	E     Expr
	File  string
	Line  int
}

type LoopSpec struct {
	Invariants []*Clause
	Decreases  *Clause
	Modifies   []*Clause
}

type Contract struct {
	Key          string
	PkgPath      string
	Recv         string
	RecvName     string
	Name         string
	ParamNames   []string
	ResultNames  []string
	Tags         []string
	Requires     []*Clause
	Ensures      []*Clause
	Modifies     []*Clause
	Asserts      map[string][]*Clause // "pre:<callee>@k" style program-point assertions: point -> clauses
	Loops        map[int]*LoopSpec
	Trusted      bool
	TrustedWhy   string
	Pure         bool
	Flags        map[string]bool
	Implements   map[string]string // function-typed parameter -> funcspec name ("self": this function literal implements the spec)
	Captured     []*Clause         // closure contracts: facts about the captured variables, proved where the literal is passed on
	CapturedPost []*Clause         // closure contracts: transitive two-state facts about the captured variables the literal assigns
	File         string
	Line         int
	External     bool // from /verif/stdlib: assumed contract of a dependency
}

type SpecFunc struct {
	Name    string
	PkgPath string
	Params  []QVar
	Result  *TypeExpr
	Body    Expr
	Src     string
	Opaque  bool // applications are kept as calls of a declared function; the definition is a triggered axiom
}

type GhostVar struct {
	Name    string
	PkgPath string
	Type    *TypeExpr
}

type Axiom struct {
	Name    string
	PkgPath string
	E       Expr
	Src     string
	File    string
	Tags    []string
	IsLemma bool // lemma: proved as an obligation; axiom: assumed (and listed)
	Uses    []string
}

type Specs struct {
	Contracts  map[string]*Contract
	SpecFuncs  map[string]*SpecFunc
	Ghosts     map[string]*GhostVar
	GhostList  []string
	Axioms     []*Axiom
	GlobalInvs []*Axiom
	Shapes     []*Shape
	Files      []string
}

// Shape pins the field names and types of a struct whose gob encoding is part of the on-disk format
// (gob matches fields by name): a type-level obligation decided without a solver.
type Shape struct {
	Type    string
	PkgPath string
	Fields  [][2]string // name, type as written
	Tags    []string
	Src     string
	File    string
	Line    int
}

func NewSpecs() *Specs {
	return &Specs{Contracts: map[string]*Contract{}, SpecFuncs: map[string]*SpecFunc{}, Ghosts: map[string]*GhostVar{}}
}

var reTags = regexp.MustCompile(`^\[([A-Z0-9, ]+)\]\s*`)
var reLabel = regexp.MustCompile(`^([A-Za-z0-9_.\-]+):\s+`)
var reTrailTags = regexp.MustCompile(`\s*\[([A-Z][0-9]+(?:\s*,\s*[A-Z][0-9]+)*)\]\s*$`)

func splitTags(s string) []string {
	var out []string
	for _, t := range strings.Split(s, ",") {
		t = strings.TrimSpace(t)
		if t != "" {
			out = append(out, t)
		}
	}
	return out
}

// splitTop splits s at top-level commas.
func splitTop(s string) []string {
	var out []string
	depth := 0
	start := 0
	for i, c := range s {
		switch c {
		case '(', '[', '{':
			depth++
		case ')', ']', '}':
			depth--
		case ',':
			if depth == 0 {
				out = append(out, strings.TrimSpace(s[start:i]))
				start = i + 1
			}
		}
	}
	if strings.TrimSpace(s[start:]) != "" {
		out = append(out, strings.TrimSpace(s[start:]))
	}
	return out
}

func namesOf(list string) []string {
	var names []string
	for _, item := range splitTop(list) {
		f := strings.Fields(item)
		if len(f) == 0 {
			continue
		}
		names = append(names, f[0])
	}
	return names
}

// matchParen returns the index of the ')' matching the '(' at s[i].
func matchParen(s string, i int) int {
	depth := 0
	for j := i; j < len(s); j++ {
		switch s[j] {
		case '(':
			depth++
		case ')':
			depth--
			if depth == 0 {
				return j
			}
		}
	}
	return -1
}

func parseFuncHeader(line string, pkgPath string) (*Contract, error) {
	c := &Contract{PkgPath: pkgPath, Loops: map[int]*LoopSpec{}, Flags: map[string]bool{}, Implements: map[string]string{}, Asserts: map[string][]*Clause{}}
	s := strings.TrimSpace(strings.TrimPrefix(line, "func"))
	if m := reTrailTags.FindStringSubmatch(s); m != nil {
		c.Tags = splitTags(m[1])
		s = strings.TrimSpace(s[:len(s)-len(m[0])])
	}
	if strings.HasPrefix(s, "(") {
		j := matchParen(s, 0)
		if j < 0 {
			return nil, fmt.Errorf("bad receiver in %q", line)
		}
		f := strings.Fields(s[1:j])
		switch len(f) {
		case 1:
			c.Recv = strings.TrimPrefix(f[0], "*")
		case 2:
			c.RecvName = f[0]
			c.Recv = strings.TrimPrefix(f[1], "*")
		default:
			return nil, fmt.Errorf("bad receiver in %q", line)
		}
		s = strings.TrimSpace(s[j+1:])
	}
	i := strings.IndexByte(s, '(')
	if i < 0 {
		return nil, fmt.Errorf("missing parameter list in %q", line)
	}
	name := strings.TrimSpace(s[:i])
	if k := strings.LastIndexByte(name, '.'); k >= 0 && c.Recv == "" {
		c.Recv = name[:k]
		name = name[k+1:]
	}
	c.Name = name
	j := matchParen(s, i)
	if j < 0 {
		return nil, fmt.Errorf("unbalanced parameters in %q", line)
	}
	c.ParamNames = namesOf(s[i+1 : j])
	rest := strings.TrimSpace(s[j+1:])
	if strings.HasPrefix(rest, "(") {
		k := matchParen(rest, 0)
		c.ResultNames = namesOf(rest[1:k])
	} else if rest != "" {
		c.ResultNames = []string{"r"}
	}
	c.Key = pkgPath + "."
	if c.Recv != "" {
		c.Key += c.Recv + "."
	}
	c.Key += c.Name
	return c, nil
}

func parseClause(kind, rest, file string, line int) (*Clause, error) {
	cl := &Clause{Kind: kind, File: file, Line: line}
	rest = strings.TrimSpace(rest)
	if m := reTags.FindStringSubmatch(rest); m != nil {
		cl.Tags = splitTags(m[1])
		rest = rest[len(m[0]):]
	}
	if m := reLabel.FindStringSubmatch(rest); m != nil && !strings.HasPrefix(rest[len(m[1]):], "::") {
		cl.Label = m[1]
		rest = rest[len(m[0]):]
	}
	cl.Src = rest
	if kind == "modifies" {
		return cl, nil
	}
	e, err := ParseExpr(rest)
	if err != nil {
		return nil, fmt.Errorf("%s:%d: %v", file, line, err)
	}
	cl.E = e
	return cl, nil
}

// LoadSpecFile reads one contract file. pkgPath is the import path its declarations belong to;
// for *.spec files it is switched by "package <path>" lines.
func (sp *Specs) LoadSpecFile(path string, pkgPath string, external bool) error {
	f, err := os.Open(path)
	if err != nil {
		return err
	}
	defer f.Close()
	sp.Files = append(sp.Files, path)
	sc := bufio.NewScanner(f)
	sc.Buffer(make([]byte, 1<<20), 1<<20)
	var lines []string
	var nums []int
	n := 0
	for sc.Scan() {
		n++
		l := sc.Text()
		t := strings.TrimSpace(l)
		if !strings.HasPrefix(t, "//@") {
			continue
		}
		body := t[3:]
		if strings.HasPrefix(body, "+") && len(lines) > 0 {
			lines[len(lines)-1] += " " + strings.TrimSpace(body[1:])
			continue
		}
		lines = append(lines, strings.TrimSpace(body))
		nums = append(nums, n)
	}
	var cur *Contract
	var curLoop *LoopSpec
	for i, l := range lines {
		if l == "" || strings.HasPrefix(l, "#") {
			continue
		}
		ln := nums[i]
		word := l
		rest := ""
		if k := strings.IndexAny(l, " \t"); k >= 0 {
			word, rest = l[:k], strings.TrimSpace(l[k+1:])
		}
		fail := func(err error) error { return fmt.Errorf("%s:%d: %v", path, ln, err) }
		switch word {
		case "package":
			pkgPath = rest
			cur = nil
		case "func":
			c, err := parseFuncHeader(l, pkgPath)
			if err != nil {
				return fail(err)
			}
			c.File, c.Line, c.External = path, ln, external
			if _, dup := sp.Contracts[c.Key]; dup {
				return fail(fmt.Errorf("duplicate contract for %s", c.Key))
			}
			sp.Contracts[c.Key] = c
			cur, curLoop = c, nil
		case "spec":
			// spec func name(a T, b U) R = expr
			cur = nil
			s := strings.TrimSpace(strings.TrimPrefix(rest, "func"))
			opaque := false
			if strings.HasPrefix(s, "opaque ") {
				opaque = true
				s = strings.TrimSpace(strings.TrimPrefix(s, "opaque "))
			}
			i := strings.IndexByte(s, '(')
			j := matchParen(s, i)
			if i < 0 || j < 0 {
				return fail(fmt.Errorf("bad spec func"))
			}
			sf := &SpecFunc{Name: strings.TrimSpace(s[:i]), PkgPath: pkgPath, Src: l, Opaque: opaque}
			for _, item := range splitTop(s[i+1 : j]) {
				f := strings.SplitN(item, " ", 2)
				if len(f) != 2 {
					return fail(fmt.Errorf("spec func parameter needs a type: %q", item))
				}
				ty, err := ParseType(strings.TrimSpace(f[1]))
				if err != nil {
					return fail(err)
				}
				sf.Params = append(sf.Params, QVar{f[0], ty})
			}
			after := strings.TrimSpace(s[j+1:])
			eq := strings.Index(after, "=")
			if eq < 0 {
				// uninterpreted function
				rt, err := ParseType(after)
				if err != nil {
					return fail(err)
				}
				sf.Result = rt
				sp.SpecFuncs[sf.Name] = sf
				continue
			}
			rt, err := ParseType(strings.TrimSpace(after[:eq]))
			if err != nil {
				return fail(err)
			}
			sf.Result = rt
			body, err := ParseExpr(strings.TrimSpace(after[eq+1:]))
			if err != nil {
				return fail(err)
			}
			sf.Body = body
			sp.SpecFuncs[sf.Name] = sf
		case "ghost":
			// ghost var name Type
			cur = nil
			f := strings.SplitN(strings.TrimSpace(strings.TrimPrefix(rest, "var")), " ", 2)
			if len(f) != 2 {
				return fail(fmt.Errorf("bad ghost var"))
			}
			ty, err := ParseType(strings.TrimSpace(f[1]))
			if err != nil {
				return fail(err)
			}
			sp.Ghosts[f[0]] = &GhostVar{Name: f[0], PkgPath: pkgPath, Type: ty}
			sp.GhostList = append(sp.GhostList, f[0])
		case "shape":
			// shape [tags] TypeName: Field type; Field type; ...
			cur = nil
			r := rest
			var tags []string
			if m := reTags.FindStringSubmatch(r); m != nil {
				for _, t := range strings.Split(m[1], ",") {
					tags = append(tags, strings.TrimSpace(t))
				}
				r = r[len(m[0]):]
			}
			k := strings.Index(r, ":")
			if k < 0 {
				return fail(fmt.Errorf("shape TypeName: Field type; ..."))
			}
			sh := &Shape{Type: strings.TrimSpace(r[:k]), PkgPath: pkgPath, Tags: tags, Src: l, File: path, Line: ln}
			for _, f := range strings.Split(r[k+1:], ";") {
				f = strings.TrimSpace(f)
				if f == "" {
					continue
				}
				p := strings.SplitN(f, " ", 2)
				if len(p) != 2 {
					return fail(fmt.Errorf("shape field %q needs a type", f))
				}
				sh.Fields = append(sh.Fields, [2]string{p[0], strings.TrimSpace(p[1])})
			}
			sp.Shapes = append(sp.Shapes, sh)
		case "globalinv":
			// globalinv name: expr — a fact about package-level variables that is ASSUMED at the entry of every
			// function of this package under contract (listed in the evidence); it is not proved.
			cur = nil
			cl, err := parseClause(word, rest, path, ln)
			if err != nil {
				return fail(err)
			}
			if cl.Label == "" {
				return fail(fmt.Errorf("globalinv needs a name"))
			}
			sp.GlobalInvs = append(sp.GlobalInvs, &Axiom{Name: cl.Label, PkgPath: pkgPath, E: cl.E, Src: cl.Src, File: path, Tags: cl.Tags})
		case "axiom", "lemma":
			cur = nil
			cl, err := parseClause(word, rest, path, ln)
			if err != nil {
				return fail(err)
			}
			if cl.Label == "" {
				return fail(fmt.Errorf("%s needs a name", word))
			}
			sp.Axioms = append(sp.Axioms, &Axiom{Name: cl.Label, PkgPath: pkgPath, E: cl.E, Src: cl.Src, File: path, Tags: cl.Tags, IsLemma: word == "lemma"})
		case "captured", "captured-post":
			// captured label: expr  - in the contract of a function literal: a fact about its captured variables
			// (which must not be assigned after the literal was created); proved where the literal is handed to
			// a callee, assumed when the literal's body is verified
			if cur == nil {
				return fail(fmt.Errorf("captured outside a func block"))
			}
			cl, err := parseClause(word, rest, path, ln)
			if err != nil {
				return fail(err)
			}
			if word == "captured-post" {
				cur.CapturedPost = append(cur.CapturedPost, cl)
			} else {
				cur.Captured = append(cur.Captured, cl)
			}
		case "requires", "ensures", "invariant", "auxinvariant", "decreases", "modifies":
			if cur == nil {
				return fail(fmt.Errorf("%s outside a func block", word))
			}
			cl, err := parseClause(word, rest, path, ln)
			if err != nil {
				return fail(err)
			}
			switch word {
			case "requires":
				cur.Requires = append(cur.Requires, cl)
			case "ensures":
				cur.Ensures = append(cur.Ensures, cl)
			case "modifies":
				if curLoop != nil {
					curLoop.Modifies = append(curLoop.Modifies, cl)
				} else {
					cur.Modifies = append(cur.Modifies, cl)
				}
			case "invariant", "auxinvariant":
				if curLoop == nil {
					return fail(fmt.Errorf("invariant outside a loop section"))
				}
				if word == "auxinvariant" {
					// an invariant about an incidental local: dropped when it cannot be evaluated any more (the local
					// was renamed or removed); the obligations it helped then have to stand on their own
					cl.Kind = "hint"
				}
				curLoop.Invariants = append(curLoop.Invariants, cl)
			case "decreases":
				if curLoop == nil {
					return fail(fmt.Errorf("decreases outside a loop section"))
				}
				curLoop.Decreases = cl
			}
		case "loop":
			if cur == nil {
				return fail(fmt.Errorf("loop outside a func block"))
			}
			k, err := strconv.Atoi(strings.TrimSuffix(strings.TrimSpace(rest), ":"))
			if err != nil {
				return fail(fmt.Errorf("bad loop ordinal %q", rest))
			}
			curLoop = &LoopSpec{}
			cur.Loops[k] = curLoop
		case "at":
			// at <point>: assert [tags] label: expr      (program-point assertion, e.g. "at call Unlock@1:")
			if cur == nil {
				return fail(fmt.Errorf("at outside a func block"))
			}
			// "assert" is part of the claim. "hint" is a proof aid only: it is proved where it can be stated and then
			// used as a lemma, but if it cannot be evaluated any more (it names a local variable that a harmless
			// edit renamed) it is dropped, and the obligations it was meant to help have to stand on their own.
			kw := ": assert "
			k := strings.Index(rest, kw)
			if k < 0 {
				kw = ": hint "
				k = strings.Index(rest, kw)
			}
			if k < 0 {
				kw = ": cases "
				k = strings.Index(rest, kw)
			}
			if k < 0 {
				return fail(fmt.Errorf("expected 'at <point>: assert|hint|cases <expr>'"))
			}
			point := strings.TrimSpace(rest[:k])
			cl, err := parseClause("assert", rest[k+len(kw):], path, ln)
			if err != nil {
				return fail(err)
			}
			if kw == ": hint " {
				cl.Kind = "hint"
			}
			if kw == ": cases " {
				cl.Kind = "cases"
			}
			cur.Asserts[point] = append(cur.Asserts[point], cl)
		case "trusted":
			if cur == nil {
				return fail(fmt.Errorf("trusted outside a func block"))
			}
			cur.Trusted = true
			cur.TrustedWhy = rest
		case "pure":
			if cur == nil {
				return fail(fmt.Errorf("pure outside a func block"))
			}
			cur.Pure = true
		case "flag":
			if cur == nil {
				return fail(fmt.Errorf("flag outside a func block"))
			}
			for _, fl := range strings.Fields(rest) {
				cur.Flags[fl] = true
			}
		case "implements":
			if cur == nil {
				return fail(fmt.Errorf("implements outside a func block"))
			}
			f := strings.Fields(rest)
			if len(f) != 2 {
				return fail(fmt.Errorf("implements <param> <funcspec>"))
			}
			cur.Implements[f[0]] = f[1]
		default:
			return fail(fmt.Errorf("unknown contract keyword %q", word))
		}
	}
	return nil
}

// LoadRepoSpecs loads verif_contracts*.go from every package directory of the repo.
func (sp *Specs) LoadRepoSpecs(repo string, modPath string) error {
	return filepath.Walk(repo, func(p string, info os.FileInfo, err error) error {
		if err != nil {
			return err
		}
		if info.IsDir() {
			if strings.HasPrefix(info.Name(), ".") && p != repo {
				return filepath.SkipDir
			}
			return nil
		}
		if !strings.HasPrefix(info.Name(), "verif_contracts") || !strings.HasSuffix(info.Name(), ".go") {
			return nil
		}
		rel, _ := filepath.Rel(repo, filepath.Dir(p))
		pkg := modPath
		if rel != "." {
			pkg = modPath + "/" + filepath.ToSlash(rel)
		}
		return sp.LoadSpecFile(p, pkg, false)
	})
}

func (sp *Specs) LoadStdlibSpecs(dir string) error {
	files, _ := filepath.Glob(filepath.Join(dir, "*.spec"))
	for _, f := range files {
		if err := sp.LoadSpecFile(f, "", true); err != nil {
			return err
		}
	}
	return nil
}
