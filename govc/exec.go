package main

// Symbolic execution of go/ssa (naive form) between cut points, producing proof obligations.

import (
	"fmt"
	"go/constant"
	"go/token"
	"go/types"
	"sort"
	"strings"
	"sync"

	"golang.org/x/tools/go/ssa"
)

// ---- values -------------------------------------------------------------------------------

type Val interface{}

type Tuple []Val

const (
	PCell = iota
	PObj
	PBox
	PArr
	PGlobal
)

type Sel struct {
	Field  int
	Struct types.Type // struct type the field belongs to (Field selections)
	Index  *T         // array index (64-bit), when not a field
	ElemT  types.Type // element type (Index selections)
}

type Ptr struct {
	Kind   int
	Cell   *ssa.Alloc
	Ref    T
	Base   types.Type // type of the base object: struct (PObj), boxed type (PBox), array element type (PArr), global type (PGlobal)
	Name   string     // PGlobal
	Global *ssa.Global
	Path   []Sel
}

type Closure struct {
	Fn       *ssa.Function
	Bindings []Val
	ID       T
}

type FuncRef struct{ Fn *ssa.Function }

type deferred struct {
	call ssa.CallCommon
	args []Val
	fn   Val
	pos  token.Pos
	site string
}

type loopState struct {
	variant  *T
	explicit bool        // the loop has its own modifies clause: checked at the back edge
	targets  []modTarget // its targets, evaluated at loop entry
	head     *Snapshot   // heaps at the loop head (after havoc)
}

type Frame struct {
	fn       *ssa.Function
	info     *FuncInfo
	contract *Contract
	vals     map[ssa.Value]Val
	cells    map[*ssa.Alloc]T
	block    *ssa.BasicBlock
	prev     *ssa.BasicBlock
	idx      int
	defers   []*deferred
	active   map[*ssa.BasicBlock]*loopState
	args     []Val // entry values of the parameters (incl. receiver)
	entry    *Snapshot
	retTo    ssa.Value // value in the parent frame that receives the results (inlined calls)
	noAdv    bool      // parent must not advance after return (RunDefers)
}

type Snapshot struct {
	heap  map[string]T
	epoch int
	alloc T
	c     *Ctx
}

func (s *Snapshot) Heap(name, sort string) T {
	if t, ok := s.heap[name]; ok {
		return t
	}
	return s.c.HeapEpoch(name, sort, s.epoch)
}
func (s *Snapshot) AllocTerm() T { return s.alloc }

type State struct {
	c          *Ctx
	frames     []*Frame
	heap       map[string]T
	epoch      int
	alloc      T
	cmds       []string
	closures   map[string]*Closure
	snaps      map[string]*Ptr // snapshot slices of arrays embedded in objects: backing ref -> origin
	dead       bool
	done       bool
	pathID     int
	caseChoice map[string]int // alternatives chosen at "cases" clauses on this path
	appendCase int            // 1: the next append is in place, 2: it reallocates (set by "cases append-fits")
}

func (st *State) Heap(name, sort string) T {
	if t, ok := st.heap[name]; ok {
		return t
	}
	return st.c.HeapEpoch(name, sort, st.epoch)
}
func (st *State) AllocTerm() T { return st.alloc }

func (st *State) snapshot() *Snapshot {
	h := make(map[string]T, len(st.heap))
	for k, v := range st.heap {
		h[k] = v
	}
	return &Snapshot{heap: h, epoch: st.epoch, alloc: st.alloc, c: st.c}
}

func (st *State) clone() *State {
	n := *st
	n.heap = make(map[string]T, len(st.heap))
	for k, v := range st.heap {
		n.heap[k] = v
	}
	n.cmds = st.cmds[:len(st.cmds):len(st.cmds)]
	n.closures = make(map[string]*Closure, len(st.closures))
	for k, v := range st.closures {
		n.closures[k] = v
	}
	n.caseChoice = make(map[string]int, len(st.caseChoice))
	for k, v := range st.caseChoice {
		n.caseChoice[k] = v
	}
	n.snaps = make(map[string]*Ptr, len(st.snaps))
	for k, v := range st.snaps {
		n.snaps[k] = v
	}
	n.frames = make([]*Frame, len(st.frames))
	for i, f := range st.frames {
		g := *f
		g.vals = make(map[ssa.Value]Val, len(f.vals))
		for k, v := range f.vals {
			g.vals[k] = v
		}
		g.cells = make(map[*ssa.Alloc]T, len(f.cells))
		for k, v := range f.cells {
			g.cells[k] = v
		}
		g.active = make(map[*ssa.BasicBlock]*loopState, len(f.active))
		for k, v := range f.active {
			g.active[k] = v
		}
		g.defers = f.defers[:len(f.defers):len(f.defers)]
		n.frames[i] = &g
	}
	return &n
}

func (st *State) top() *Frame { return st.frames[len(st.frames)-1] }

func (st *State) assume(t T) {
	if t.S == "true" {
		return
	}
	if t.S == "false" {
		st.dead = true
		return
	}
	st.cmds = append(st.cmds, "(assert "+t.S+")")
}

// ---- function information -----------------------------------------------------------------

type LoopInfo struct {
	Ordinal int
	Header  *ssa.BasicBlock
	Body    map[*ssa.BasicBlock]bool
}

type FuncInfo struct {
	fn      *ssa.Function
	ord     map[ssa.Instruction]int // ordinal of the instruction within its kind
	callOrd map[ssa.Instruction]string
	loops   map[*ssa.BasicBlock]*LoopInfo
	cells   map[string][]*ssa.Alloc
}

func instrKind(in ssa.Instruction) string {
	switch x := in.(type) {
	case *ssa.IndexAddr, *ssa.Index:
		return "bounds"
	case *ssa.Slice:
		return "slice"
	case *ssa.FieldAddr:
		return "nil"
	case *ssa.UnOp:
		if x.Op == token.MUL {
			return "nilderef"
		}
	case *ssa.Store:
		return "store"
	case *ssa.BinOp:
		switch x.Op {
		case token.QUO, token.REM:
			return "div"
		case token.SHL, token.SHR:
			return "shift"
		}
	case *ssa.Convert:
		return "conv"
	case *ssa.MakeSlice:
		return "alloc"
	case *ssa.Panic:
		return "panic"
	case *ssa.TypeAssert:
		return "typeassert"
	case *ssa.Return:
		return "return"
	}
	return ""
}

func calleeName(cc *ssa.CallCommon) string {
	if cc.IsInvoke() {
		return cc.Method.Name()
	}
	switch v := cc.Value.(type) {
	case *ssa.Function:
		return v.Name()
	case *ssa.Builtin:
		return v.Name()
	case *ssa.MakeClosure:
		return v.Fn.(*ssa.Function).Name()
	}
	// a function value read from a named variable (a function-typed parameter or local): the variable's name
	if u, ok := cc.Value.(*ssa.UnOp); ok && u.Op == token.MUL {
		if a, ok := u.X.(*ssa.Alloc); ok && a.Comment != "" {
			return a.Comment
		}
		if fv, ok := u.X.(*ssa.FreeVar); ok {
			return fv.Name()
		}
	}
	if p, ok := cc.Value.(*ssa.Parameter); ok {
		return p.Name()
	}
	if cc.Value.Name() != "" {
		return strings.TrimPrefix(cc.Value.Name(), "*")
	}
	return "dyn"
}

func (c *Ctx) funcInfo(fn *ssa.Function, cache map[*ssa.Function]*FuncInfo) *FuncInfo {
	if fi, ok := cache[fn]; ok {
		return fi
	}
	fi := &FuncInfo{fn: fn, ord: map[ssa.Instruction]int{}, callOrd: map[ssa.Instruction]string{}, loops: map[*ssa.BasicBlock]*LoopInfo{}, cells: map[string][]*ssa.Alloc{}}
	cache[fn] = fi
	counts := map[string]int{}
	calls := map[string]int{}
	for _, b := range fn.Blocks {
		for _, in := range b.Instrs {
			if k := instrKind(in); k != "" {
				counts[k]++
				fi.ord[in] = counts[k]
			}
			var cc *ssa.CallCommon
			switch x := in.(type) {
			case *ssa.Call:
				cc = &x.Call
			case *ssa.Defer:
				cc = &x.Call
			case *ssa.Go:
				cc = &x.Call
			}
			if cc != nil {
				n := calleeName(cc)
				calls[n]++
				fi.callOrd[in] = fmt.Sprintf("%s@%d", n, calls[n])
			}
			if a, ok := in.(*ssa.Alloc); ok && a.Comment != "" {
				fi.cells[a.Comment] = append(fi.cells[a.Comment], a)
			}
		}
	}
	// natural loops from back edges
	var headers []*ssa.BasicBlock
	for _, b := range fn.Blocks {
		for _, s := range b.Succs {
			if s.Dominates(b) {
				li := fi.loops[s]
				if li == nil {
					li = &LoopInfo{Header: s, Body: map[*ssa.BasicBlock]bool{s: true}}
					fi.loops[s] = li
					headers = append(headers, s)
				}
				// collect body: nodes reaching b without passing through s
				stack := []*ssa.BasicBlock{b}
				for len(stack) > 0 {
					n := stack[len(stack)-1]
					stack = stack[:len(stack)-1]
					if li.Body[n] {
						continue
					}
					li.Body[n] = true
					stack = append(stack, n.Preds...)
				}
			}
		}
	}
	sort.Slice(headers, func(i, j int) bool { return headers[i].Index < headers[j].Index })
	for i, h := range headers {
		fi.loops[h].Ordinal = i + 1
	}
	return fi
}

// ---- obligations --------------------------------------------------------------------------

type Obligation struct {
	Name   string
	Func   string
	Kind   string
	Tags   []string
	Cmds   []string
	Goal   T
	Cover  bool
	Where  string
	PathID int
	Src    string
}

type Exec struct {
	c            *Ctx
	fn           *ssa.Function
	key          string
	contract     *Contract
	infos        map[*ssa.Function]*FuncInfo
	obls         []*Obligation
	nfresh       int
	npaths       int
	problems     []string
	assumed      map[string]string // assumed contracts used: key -> reason
	bound        int
	maxPaths     int
	want         func(name string, tags []string) bool
	frameChk     bool
	pendingForks []*State          // alternative paths created by "cases" clauses
	defs         map[string]string // define-fun name -> definition (to see through names when a function value is loaded)
	freeRefs     []T               // cells of the captured variables of a function literal verified on its own
}

var splitGoals bool

// distribute splits a goal into its conjuncts, pushing through implications and universal quantifiers.
func distribute(g string) []string {
	p := splitSexp(g)
	if len(p) == 0 {
		return []string{g}
	}
	switch {
	case p[0] == "and":
		var out []string
		for _, c := range p[1:] {
			out = append(out, distribute(c)...)
		}
		return out
	case p[0] == "=>" && len(p) == 3:
		var out []string
		for _, c := range distribute(p[2]) {
			out = append(out, "(=> "+p[1]+" "+c+")")
		}
		return out
	case p[0] == "forall" && len(p) == 3:
		var out []string
		for _, c := range distribute(p[2]) {
			out = append(out, "(forall "+p[1]+" "+c+")")
		}
		return out
	}
	return []string{g}
}

type unsupported string

func (ex *Exec) unsup(f string, a ...interface{}) {
	panic(unsupported(fmt.Sprintf(f, a...)))
}

func (ex *Exec) fresh(st *State, hint, sort string) T {
	ex.nfresh++
	name := fmt.Sprintf("%s!%d", sanitize(hint), ex.nfresh)
	st.cmds = append(st.cmds, fmt.Sprintf("(declare-const %s %s)", name, sort))
	return T{name, sort}
}

// define names a term so later uses stay small.
func (ex *Exec) define(st *State, hint string, t T) T {
	if len(t.S) < 48 {
		return t
	}
	if t.Sort == SSlice && strings.HasPrefix(t.S, "(mk_slice ") {
		a := ex.define(st, hint+"_a", SlArr(t))
		o := ex.define(st, hint+"_o", SlOff(t))
		l := ex.define(st, hint+"_l", SlLen(t))
		c := ex.define(st, hint+"_c", SlCap(t))
		return MkSlice(a, o, l, c)
	}
	ex.nfresh++
	name := fmt.Sprintf("%s!%d", sanitize(hint), ex.nfresh)
	st.cmds = append(st.cmds, fmt.Sprintf("(define-fun %s () %s %s)", name, t.Sort, t.S))
	if ex.defs == nil {
		ex.defs = map[string]string{}
	}
	ex.defs[name] = t.S // names are unique per function run: one table serves all paths
	return T{name, t.Sort}
}

func (ex *Exec) pos(p token.Pos) string {
	if !p.IsValid() || ex.c.Fset == nil {
		return ""
	}
	ps := ex.c.Fset.Position(p)
	return fmt.Sprintf("%s:%d", strings.TrimPrefix(ps.Filename, ex.c.Repo+"/"), ps.Line)
}

func (ex *Exec) oblige(st *State, fnKey, kind string, tags []string, goal T, where, src string) {
	if goal.S == "true" {
		// trivially discharged by construction; still counted so that the obligation set is stable
	}
	name := shortKey(ex.c, fnKey) + "#" + kind
	if ex.want != nil && !ex.want(name, tags) {
		return
	}
	if splitGoals {
		parts := distribute(goal.S)
		if len(parts) > 1 {
			for i, part := range parts {
				ex.obls = append(ex.obls, &Obligation{Name: fmt.Sprintf("%s/%d", name, i+1), Func: fnKey, Kind: kind, Tags: tags, Cmds: st.cmds[:len(st.cmds):len(st.cmds)], Goal: T{part, SBool}, Where: where, PathID: st.pathID, Src: part})
			}
			return
		}
	}
	ex.obls = append(ex.obls, &Obligation{Name: name, Func: fnKey, Kind: kind, Tags: tags, Cmds: st.cmds[:len(st.cmds):len(st.cmds)], Goal: goal, Where: where, PathID: st.pathID, Src: src})
}

func (ex *Exec) cover(st *State, fnKey, kind string, tags []string, where string) {
	name := shortKey(ex.c, fnKey) + "#" + kind
	if ex.want != nil && !ex.want(name, tags) {
		return
	}
	ex.obls = append(ex.obls, &Obligation{Name: name, Func: fnKey, Kind: kind, Tags: tags, Cmds: st.cmds[:len(st.cmds):len(st.cmds)], Goal: False, Cover: true, Where: where, PathID: st.pathID})
}

func (ex *Exec) info(fn *ssa.Function) *FuncInfo { return ex.c.funcInfo(fn, ex.infos) }

// safety obligations are tagged with the function's property tags plus C10 (panic freedom)
func (ex *Exec) safetyTags(fr *Frame) []string {
	tags := []string{"C10"}
	if fr.contract != nil {
		for _, t := range fr.contract.Tags {
			if t != "C10" {
				tags = append(tags, t)
			}
		}
	}
	return tags
}

func (ex *Exec) safety(st *State, fr *Frame, in ssa.Instruction, kind string, goal T) {
	k := fmt.Sprintf("%s@%d", kind, fr.info.ord[in])
	ex.oblige(st, funcKey(fr.fn), k, ex.safetyTags(fr), goal, ex.pos(in.Pos()), in.String())
	st.assume(goal) // execution continues only where the instruction does not panic
}

// ---- type assumptions ---------------------------------------------------------------------

var maxLen = bvConst(1<<48, 64)

func (ex *Exec) assumeTyped(st *State, v T, t types.Type) {
	switch under(t).(type) {
	case *types.Slice:
		z := bvConst(0, 64)
		st.assume(And(bvCmp("bvsle", z, SlLen(v)), bvCmp("bvsle", SlLen(v), SlCap(v)), bvCmp("bvsle", SlCap(v), maxLen),
			bvCmp("bvsle", z, SlOff(v)), bvCmp("bvsle", SlOff(v), maxLen),
			App("<=", SBool, Nil, SlArr(v)), App("<", SBool, SlArr(v), st.alloc),
			Implies(Eq(SlArr(v), Nil), Eq(SlCap(v), z))))
	case *types.Pointer, *types.Map, *types.Chan:
		st.assume(And(App("<=", SBool, Nil, v), App("<", SBool, v, st.alloc)))
	case *types.Interface:
		st.assume(App("<", SBool, v, st.alloc))
	case *types.Signature:
		st.assume(App("<=", SBool, Nil, v))
	}
}

func (ex *Exec) freshTyped(st *State, hint string, t types.Type) T {
	v := ex.fresh(st, hint, ex.c.SortOf(t))
	ex.assumeTyped(st, v, t)
	return v
}

func (ex *Exec) newRef(st *State) T {
	r := ex.define(st, "ref", st.alloc)
	if r.S == st.alloc.S {
		// make sure the reference has its own name so that alloc can move on
		ex.nfresh++
		name := fmt.Sprintf("ref!%d", ex.nfresh)
		st.cmds = append(st.cmds, fmt.Sprintf("(define-fun %s () Int %s)", name, st.alloc.S))
		r = T{name, SInt}
	}
	st.alloc = App("+", SInt, r, intConst(1))
	return r
}

// ---- value conversion ---------------------------------------------------------------------

func (ex *Exec) constVal(c *ssa.Const) Val {
	t := c.Type()
	if c.Value == nil {
		// zero value / nil
		return ex.c.Zero(t)
	}
	if v, ok := constToT(ex.c, c.Value, t); ok {
		return v
	}
	_ = constant.Int
	ex.unsup("constant %s of type %s", c.Value, t)
	return nil
}

func (ex *Exec) get(st *State, fr *Frame, v ssa.Value) Val {
	switch x := v.(type) {
	case *ssa.Const:
		return ex.constVal(x)
	case *ssa.Global:
		if _, isErr := under(x.Type().(*types.Pointer).Elem()).(*types.Interface); isErr && types.Identical(x.Type().(*types.Pointer).Elem(), types.Universe.Lookup("error").Type()) {
			return &Ptr{Kind: PGlobal, Name: "err:" + x.Pkg.Pkg.Name() + ":" + x.Name(), Base: x.Type().(*types.Pointer).Elem()}
		}
		name, _ := ex.c.GlobalHeap(x)
		return &Ptr{Kind: PGlobal, Name: name, Global: x, Base: x.Type().(*types.Pointer).Elem()}
	case *ssa.Function:
		return &FuncRef{x}
	case *ssa.Builtin:
		return x
	case *ssa.FreeVar:
		// resolved through the closure bindings stored in vals
	}
	if val, ok := fr.vals[v]; ok {
		return val
	}
	ex.unsup("value %s (%T) has no definition on this path", v.Name(), v)
	return nil
}

// term converts a value to an SMT term (pointers to whole heap objects become references).
func (ex *Exec) term(st *State, v Val) T {
	switch x := v.(type) {
	case T:
		return x
	case *Ptr:
		if len(x.Path) == 0 && (x.Kind == PObj || x.Kind == PBox || x.Kind == PArr) {
			return x.Ref
		}
		if x.Kind == PObj && len(x.Path) == 1 && x.Path[0].Index == nil {
			return App("ipa", SInt, x.Ref, intConst(int64(x.Path[0].Field)))
		}
		ex.unsup("pointer into a local or interior pointer used as a value (kind %d, path %d)", x.Kind, len(x.Path))
	case *Closure:
		return x.ID
	case *FuncRef:
		name := "fn_" + sanitize(funcKey(x.Fn))
		ex.c.Decl(name, fmt.Sprintf("(declare-const %s Int)\n(assert (> %s 0))", name, name))
		return T{name, SInt}
	}
	ex.unsup("cannot convert %T to a term", v)
	return T{}
}

// ptr converts a pointer-typed value to a symbolic pointer.
func (ex *Exec) ptr(st *State, fr *Frame, v Val, pt types.Type, in ssa.Instruction, check bool) *Ptr {
	switch x := v.(type) {
	case *Ptr:
		return x
	case T:
		elem := under(pt).(*types.Pointer).Elem()
		if check && in != nil {
			ex.safety(st, fr, in, instrKind(in), Not(Eq(x, Nil)))
		}
		switch under(elem).(type) {
		case *types.Struct:
			return &Ptr{Kind: PObj, Ref: x, Base: elem}
		case *types.Array:
			return &Ptr{Kind: PArr, Ref: x, Base: under(elem).(*types.Array).Elem()}
		default:
			return &Ptr{Kind: PBox, Ref: x, Base: elem}
		}
	}
	ex.unsup("not a pointer: %T", v)
	return nil
}

// ---- memory -------------------------------------------------------------------------------

func (ex *Exec) cellFrame(st *State, a *ssa.Alloc) *Frame {
	for i := len(st.frames) - 1; i >= 0; i-- {
		if st.frames[i].fn == a.Parent() {
			return st.frames[i]
		}
	}
	ex.unsup("cell %s of a function that is not on the stack", a.Comment)
	return nil
}

// baseLoad reads the object a pointer is rooted at (first path step already applied for PObj/PArr).
func (ex *Exec) loadPath(v T, vt types.Type, path []Sel) (T, types.Type) {
	for _, s := range path {
		if s.Index != nil {
			v = Select(v, *s.Index)
			vt = s.ElemT
		} else {
			si := ex.c.StructOf(vt)
			v = ex.c.FieldOf(si, v, s.Field)
			vt = si.Fields[s.Field].Go
		}
	}
	return v, vt
}

func (ex *Exec) storePath(v T, vt types.Type, path []Sel, nv T) T {
	if len(path) == 0 {
		return nv
	}
	s := path[0]
	if s.Index != nil {
		inner := ex.storePath(Select(v, *s.Index), s.ElemT, path[1:], nv)
		return Store(v, *s.Index, inner)
	}
	si := ex.c.StructOf(vt)
	inner := ex.storePath(ex.c.FieldOf(si, v, s.Field), si.Fields[s.Field].Go, path[1:], nv)
	return ex.c.WithField(si, v, s.Field, inner)
}

func (ex *Exec) load(st *State, p *Ptr) T {
	c := ex.c
	switch p.Kind {
	case PCell:
		fr := ex.cellFrame(st, p.Cell)
		v, ok := fr.cells[p.Cell]
		if !ok {
			ex.unsup("read of uninitialised cell %s", p.Cell.Comment)
		}
		r, _ := ex.loadPath(v, p.Base, p.Path)
		return r
	case PObj:
		si := c.StructOf(p.Base)
		if len(p.Path) == 0 {
			var args []T
			for i := range si.Fields {
				hn, hs := c.FieldHeap(p.Base, i)
				args = append(args, Select(st.Heap(hn, hs), p.Ref))
			}
			return c.MkStruct(si, args)
		}
		f := p.Path[0]
		hn, hs := c.FieldHeap(p.Base, f.Field)
		v := Select(st.Heap(hn, hs), p.Ref)
		r, _ := ex.loadPath(v, si.Fields[f.Field].Go, p.Path[1:])
		return r
	case PBox:
		hn, hs := c.BoxHeap(c.SortOf(p.Base))
		r, _ := ex.loadPath(Select(st.Heap(hn, hs), p.Ref), p.Base, p.Path)
		return r
	case PArr:
		hn, hs := c.ElemHeap(c.SortOf(p.Base))
		arr := Select(st.Heap(hn, hs), p.Ref)
		if len(p.Path) == 0 {
			return arr
		}
		v := Select(arr, *p.Path[0].Index)
		r, _ := ex.loadPath(v, p.Base, p.Path[1:])
		return r
	case PGlobal:
		if strings.HasPrefix(p.Name, "err:") {
			f := strings.Split(p.Name, ":")
			return c.ErrConst(f[1], f[2])
		}
		if p.Global != nil {
			if v, ok := c.ConstGlobal(p.Global.Pkg.Pkg.Path(), p.Global.Name()); ok {
				r, _ := ex.loadPath(v, p.Base, p.Path)
				return r
			}
		}
		r, _ := ex.loadPath(st.Heap(p.Name, c.SortOf(p.Base)), p.Base, p.Path)
		return r
	}
	ex.unsup("load: bad pointer")
	return T{}
}

func (ex *Exec) setHeap(st *State, name string, v T) {
	st.heap[name] = ex.define(st, name, v)
}

func (ex *Exec) store(st *State, fr *Frame, p *Ptr, v T, in ssa.Instruction) {
	c := ex.c
	switch p.Kind {
	case PCell:
		cf := ex.cellFrame(st, p.Cell)
		old, ok := cf.cells[p.Cell]
		if !ok && len(p.Path) > 0 {
			ex.unsup("partial write to uninitialised cell")
		}
		cf.cells[p.Cell] = ex.define(st, p.Cell.Comment, ex.storePath(old, p.Base, p.Path, v))
	case PObj:
		si := c.StructOf(p.Base)
		if len(p.Path) == 0 {
			for i := range si.Fields {
				hn, hs := c.FieldHeap(p.Base, i)
				ex.checkWrite(st, fr, hn, p.Ref, in)
				ex.setHeap(st, hn, Store(st.Heap(hn, hs), p.Ref, c.FieldOf(si, v, i)))
			}
			return
		}
		f := p.Path[0]
		hn, hs := c.FieldHeap(p.Base, f.Field)
		ex.checkWrite(st, fr, hn, p.Ref, in)
		h := st.Heap(hn, hs)
		nv := ex.storePath(Select(h, p.Ref), si.Fields[f.Field].Go, p.Path[1:], v)
		ex.setHeap(st, hn, Store(h, p.Ref, nv))
	case PBox:
		hn, hs := c.BoxHeap(c.SortOf(p.Base))
		ex.checkWrite(st, fr, hn, p.Ref, in)
		h := st.Heap(hn, hs)
		ex.setHeap(st, hn, Store(h, p.Ref, ex.storePath(Select(h, p.Ref), p.Base, p.Path, v)))
	case PArr:
		hn, hs := c.ElemHeap(c.SortOf(p.Base))
		ex.checkWrite(st, fr, hn, p.Ref, in)
		h := st.Heap(hn, hs)
		arr := Select(h, p.Ref)
		var na T
		if len(p.Path) == 0 {
			na = v
		} else {
			na = Store(arr, *p.Path[0].Index, ex.storePath(Select(arr, *p.Path[0].Index), p.Base, p.Path[1:], v))
		}
		ex.setHeap(st, hn, Store(h, p.Ref, na))
		ex.writeBackSnap(st, fr, p.Ref, in)
	case PGlobal:
		if strings.HasPrefix(p.Name, "err:") {
			ex.unsup("assignment to error sentinel %s", p.Name)
		}
		ex.checkWrite(st, fr, p.Name, Nil, in)
		ex.setHeap(st, p.Name, ex.storePath(st.Heap(p.Name, c.SortOf(p.Base)), p.Base, p.Path, v))
	}
}

// writeBackSnap propagates a write through a slice that aliases an array embedded in an object.
func (ex *Exec) writeBackSnap(st *State, fr *Frame, ref T, in ssa.Instruction) {
	origin, ok := st.snaps[ref.S]
	if !ok {
		return
	}
	hn, hs := ex.c.ElemHeap(ex.c.SortOf(under(originElem(origin)).(*types.Array).Elem()))
	arr := Select(st.Heap(hn, hs), ref)
	ex.store(st, fr, origin, arr, in)
}

func originElem(p *Ptr) types.Type {
	// type of the location the pointer designates
	t := p.Base
	path := p.Path
	if p.Kind == PObj && len(path) > 0 {
		st := under(t).(*types.Struct)
		t = st.Field(path[0].Field).Type()
		path = path[1:]
	}
	for _, s := range path {
		if s.Index != nil {
			t = s.ElemT
		} else {
			t = under(t).(*types.Struct).Field(s.Field).Type()
		}
	}
	return t
}

// ---- entry --------------------------------------------------------------------------------

func (ex *Exec) paramNames(fn *ssa.Function, ct *Contract) []string {
	var names []string
	for i, p := range fn.Params {
		n := p.Name()
		if ct != nil {
			// contract names take precedence: receiver first, then parameters
			if fn.Signature.Recv() != nil {
				if i == 0 && ct.RecvName != "" {
					n = ct.RecvName
				} else if i > 0 && i-1 < len(ct.ParamNames) {
					n = ct.ParamNames[i-1]
				}
			} else if i < len(ct.ParamNames) {
				n = ct.ParamNames[i]
			}
		}
		names = append(names, n)
	}
	return names
}

// VerifyFunction generates the obligations of one function under contract.
func VerifyFunction(c *Ctx, fn *ssa.Function, ct *Contract, want func(string, []string) bool) (ex *Exec) {
	if ct != nil {
		if eff, err := effectiveContract(c, ct); err != nil {
			ex = &Exec{c: c, fn: fn, key: funcKey(fn), contract: ct, infos: map[*ssa.Function]*FuncInfo{}, assumed: map[string]string{}}
			ex.problems = append(ex.problems, "contract error: "+err.Error())
			return ex
		} else {
			ct = eff
		}
	}
	ex = &Exec{c: c, fn: fn, key: funcKey(fn), contract: ct, infos: map[*ssa.Function]*FuncInfo{}, assumed: map[string]string{}, maxPaths: 4000, want: want, frameChk: true}
	defer func() {
		if r := recover(); r != nil {
			switch e := r.(type) {
			case unsupported:
				ex.problems = append(ex.problems, "out of subset: "+string(e))
			case specErr:
				ex.problems = append(ex.problems, "contract error: "+string(e))
			default:
				panic(r)
			}
		}
	}()
	if fn.Blocks == nil {
		ex.problems = append(ex.problems, "function has no body")
		return ex
	}
	st := &State{c: c, heap: map[string]T{}, closures: map[string]*Closure{}, snaps: map[string]*Ptr{}}
	st.cmds = append(st.cmds, "(declare-const alloc!0 Int)", "(assert (> alloc!0 0))")
	st.alloc = T{"alloc!0", SInt}
	fr := &Frame{fn: fn, info: ex.info(fn), contract: ct, vals: map[ssa.Value]Val{}, cells: map[*ssa.Alloc]T{}, active: map[*ssa.BasicBlock]*loopState{}}
	for _, p := range fn.Params {
		v := ex.freshTyped(st, "p_"+p.Name(), p.Type())
		fr.vals[p] = v
		fr.args = append(fr.args, v)
	}
	for _, fv := range fn.FreeVars {
		// a closure verified on its own: free variables are pointers to unknown (existing, pairwise different) cells
		v := ex.freshTyped(st, "fv_"+fv.Name(), fv.Type())
		st.assume(Not(Eq(v, Nil)))
		for _, o := range ex.freeRefs {
			st.assume(Not(Eq(v, o)))
		}
		ex.freeRefs = append(ex.freeRefs, v)
		fr.vals[fv] = v
	}
	st.frames = []*Frame{fr}
	// Values reachable in one step from a pointer parameter are well typed in the entry state (slice
	// headers within bounds, references allocated or nil) - the same facts the executor assumes whenever
	// the code loads such a value; stating them here makes them available to contracts that mention the
	// field (old(it.segments)) on paths where the code never loads it.
	for i, p := range fn.Params {
		pt, ok := under(p.Type()).(*types.Pointer)
		if !ok {
			continue
		}
		sti, ok := under(pt.Elem()).(*types.Struct)
		if !ok {
			continue
		}
		pv, ok := fr.args[i].(T)
		if !ok {
			continue
		}
		for k := 0; k < sti.NumFields(); k++ {
			switch under(sti.Field(k).Type()).(type) {
			case *types.Slice, *types.Pointer, *types.Interface, *types.Map:
				hn, hs := c.FieldHeap(pt.Elem(), k)
				c.declHeap(hn, hs)
				ex.assumeTyped(st, Select(st.Heap(hn, hs), pv), sti.Field(k).Type())
			}
		}
	}
	fr.entry = st.snapshot()
	// preconditions
	ev := ex.contractEnv(st, fn, ct, fr.args, nil, fr.entry, fr.entry)
	if fn.Signature.Recv() != nil {
		if _, ok := under(fn.Signature.Recv().Type()).(*types.Pointer); ok {
			st.assume(Not(Eq(ex.term(st, fr.args[0]), Nil)))
		}
	}
	if ct != nil {
		for _, r := range ct.Requires {
			st.assume(ev.Bool(r.E))
		}
		for _, r := range ct.Captured {
			st.assume(ev.Bool(r.E))
			ex.assumed["captured:"+shortKey(c, ct.Key)+":"+r.Label] = "fact about captured variables, proved where the function literal is passed to its callee"
		}
	}
	if fn.Pkg != nil {
		for _, gi := range ex.c.Specs.GlobalInvs {
			if gi.PkgPath == fn.Pkg.Pkg.Path() {
				st.assume(ev.Bool(gi.E))
				ex.assumed["globalinv:"+gi.Name] = gi.Src
			}
		}
	}
	ex.cover(st, ex.key, "cover:pre", ex.funcTags(ct), ex.pos(fn.Pos()))
	fr.block = fn.Blocks[0]
	ex.runAll(st)
	return ex
}

func (ex *Exec) funcTags(ct *Contract) []string {
	if ct == nil {
		return []string{"C10"}
	}
	return ct.Tags
}

// applyAxioms assumes the assumed lemmas (axioms) of the contract files; they are listed in the evidence.
func (ex *Exec) applyAxioms(st *State) {
	for _, ax := range ex.c.Specs.Axioms {
		if ax.IsLemma {
			continue
		}
		ev := &Eval{c: ex.c, pkg: ex.c.TPkgs[ax.PkgPath], vars: map[string]SV{}, view: st, bound: &ex.bound, ex: ex}
		st.assume(ev.Bool(ax.E))
		ex.assumed["axiom:"+ax.Name] = ax.Src
	}
}

// contractEnv builds the evaluation environment of a contract: parameters bound to args, results to res.
func (ex *Exec) contractEnv(st *State, fn *ssa.Function, ct *Contract, args []Val, res []T, view HeapView, old HeapView) *Eval {
	var pkg *types.Package
	if fn != nil && fn.Pkg != nil {
		pkg = fn.Pkg.Pkg
	} else if ct != nil {
		pkg = ex.c.TPkgs[ct.PkgPath]
	}
	ev := &Eval{c: ex.c, pkg: pkg, vars: map[string]SV{}, view: view, bound: &ex.bound, ex: ex}
	if fn != nil {
		names := ex.paramNames(fn, ct)
		for i, p := range fn.Params {
			if i < len(args) {
				ev.vars[names[i]] = SV{T: ex.term(st, args[i]), Ty: goTy(ex.c, p.Type())}
			}
		}
		// captured variables of a function literal verified on its own, under their source names
		if len(fn.FreeVars) > 0 {
			var ff *Frame
			for i := len(st.frames) - 1; i >= 0; i-- {
				if st.frames[i].fn == fn {
					ff = st.frames[i]
					break
				}
			}
			if ff != nil {
				for _, fv := range fn.FreeVars {
					if _, taken := ev.vars[fv.Name()]; taken {
						continue
					}
					pt, ok := under(fv.Type()).(*types.Pointer)
					if !ok {
						continue
					}
					if sv, ok := ex.capturedValue(st, ff.vals[fv], pt.Elem(), view); ok {
						ev.vars[fv.Name()] = sv
					}
				}
			}
		}
		results := fn.Signature.Results()
		for i := 0; i < results.Len() && i < len(res); i++ {
			n := results.At(i).Name()
			if ct != nil && i < len(ct.ResultNames) {
				n = ct.ResultNames[i]
			}
			if n == "" || n == "_" {
				n = fmt.Sprintf("r%d", i)
			}
			ev.vars[n] = SV{T: res[i], Ty: goTy(ex.c, results.At(i).Type())}
		}
	}
	if old != nil {
		o := *ev
		o.view = old
		o.old = nil
		// captured variables of a function literal have their entry values in the old state
		if fn != nil && len(fn.FreeVars) > 0 {
			o.vars = map[string]SV{}
			for k, v := range ev.vars {
				o.vars[k] = v
			}
			var ff *Frame
			for i := len(st.frames) - 1; i >= 0; i-- {
				if st.frames[i].fn == fn {
					ff = st.frames[i]
					break
				}
			}
			if ff != nil {
				for _, fv := range fn.FreeVars {
					if pt, ok := under(fv.Type()).(*types.Pointer); ok {
						if sv, ok := ex.capturedValue(st, ff.vals[fv], pt.Elem(), old); ok {
							if cur, has := ev.vars[fv.Name()]; has && cur.Ty != nil && sv.Ty != nil && cur.T.Sort == sv.T.Sort {
								o.vars[fv.Name()] = sv
							}
						}
					}
				}
			}
		}
		ev.old = &o
	}
	return ev
}

func (ex *Exec) runAll(st *State) {
	work := []*State{st}
	for len(work) > 0 {
		s := work[len(work)-1]
		work = work[:len(work)-1]
		ex.npaths++
		if ex.npaths > ex.maxPaths {
			ex.unsup("more than %d paths", ex.maxPaths)
		}
		s.pathID = ex.npaths
		steps := 0
		for !s.done && !s.dead {
			steps++
			if steps > 200000 {
				ex.unsup("path too long")
			}
			forks := ex.step(s)
			work = append(work, forks...)
			if len(ex.pendingForks) > 0 {
				work = append(work, ex.pendingForks...)
				ex.pendingForks = nil
			}
		}
	}
}

// ---- control flow -------------------------------------------------------------------------

// jump moves the frame to block b, handling loop cut points. Returns false if the path ends here.
func (ex *Exec) jump(st *State, fr *Frame, b *ssa.BasicBlock) {
	from := fr.block
	fr.prev = from
	fr.block = b
	fr.idx = 0
	// leaving loops
	for h := range fr.active {
		if li := fr.info.loops[h]; li != nil && !li.Body[b] {
			delete(fr.active, h)
		}
	}
	li := fr.info.loops[b]
	if li == nil {
		return
	}
	spec := ex.loopSpec(fr, li)
	fnKey := funcKey(fr.fn)
	where := ""
	if len(b.Instrs) > 0 {
		where = ex.pos(b.Instrs[0].Pos())
	}
	if ls, isActive := fr.active[b]; isActive {
		// back edge: invariant preserved, variant decreased
		ev := ex.loopEnv(st, fr)
		if spec != nil {
			for i, inv := range spec.Invariants {
				if g, ok := boolTolerant(ev, inv); ok {
					ex.oblige(st, fnKey, fmt.Sprintf("inv:%s@loop%d:preserved", labelOr(inv, i), li.Ordinal), clauseTags(inv, fr.contract), g, where, inv.Src)
				}
			}
			if spec.Decreases != nil && ls.variant != nil {
				nv := ev.typed(ev.eval(spec.Decreases.E))
				goal := And(bvCmp("bvslt", nv.T, *ls.variant), bvCmp("bvsle", bvConst(0, bvWidth(nv.T.Sort)), *ls.variant))
				ex.oblige(st, fnKey, fmt.Sprintf("dec@loop%d", li.Ordinal), clauseTags(spec.Decreases, fr.contract), goal, where, spec.Decreases.Src)
			}
		}
		if ls.explicit {
			ex.checkLoopFrame(st, fr, li, ls, where)
		}
		st.done = true
		return
	}
	// loop entry: establish invariant, havoc, assume invariant
	if spec != nil {
		ev := ex.loopEnv(st, fr)
		for i, inv := range spec.Invariants {
			if g, ok := boolTolerant(ev, inv); ok {
				ex.oblige(st, fnKey, fmt.Sprintf("inv:%s@loop%d:entry", labelOr(inv, i), li.Ordinal), clauseTags(inv, fr.contract), g, where, inv.Src)
			}
		}
	}
	tg, explicit := ex.havocLoop(st, fr, li, spec)
	ls := &loopState{targets: tg, explicit: explicit}
	if spec != nil {
		ev := ex.loopEnv(st, fr)
		for _, inv := range spec.Invariants {
			if g, ok := boolTolerant(ev, inv); ok {
				st.assume(g)
			}
		}
		if spec.Decreases != nil {
			v := ev.typed(ev.eval(spec.Decreases.E))
			d := ex.define(st, "variant", v.T)
			ls.variant = &d
		}
	}
	ls.head = st.snapshot()
	fr.active[b] = ls
}

func labelOr(cl *Clause, i int) string {
	if cl.Label != "" {
		return cl.Label
	}
	return fmt.Sprintf("%d", i+1)
}

func clauseTags(cl *Clause, ct *Contract) []string {
	if len(cl.Tags) > 0 {
		return cl.Tags
	}
	if ct != nil {
		return ct.Tags
	}
	return nil
}

func (ex *Exec) loopSpec(fr *Frame, li *LoopInfo) *LoopSpec {
	if fr.contract == nil {
		return nil
	}
	return fr.contract.Loops[li.Ordinal]
}

// loopEnv: contract environment in which named locals denote their current values.
func (ex *Exec) loopEnv(st *State, fr *Frame) *Eval {
	ev := ex.contractEnv(st, fr.fn, fr.contract, fr.args, nil, st, fr.entry)
	// parameters denote their *current* values inside loop clauses; entry values via old(x)
	ev.old.vars = map[string]SV{}
	for k, v := range ev.vars {
		ev.old.vars[k] = v
	}
	ev.locals = func(name string) (SV, bool) {
		return ex.localByName(st, fr, name)
	}
	if ev.old != nil {
		ev.old.locals = ev.locals // a local has no old value: inside old(...) it denotes its current value
	}
	for k := range ev.vars {
		if sv, ok := ex.localByName(st, fr, k); ok {
			ev.vars[k] = sv
		}
	}
	return ev
}

func (ex *Exec) localByName(st *State, fr *Frame, name string) (SV, bool) {
	ord := 0
	base := name
	if i := strings.IndexByte(name, '#'); i >= 0 {
		fmt.Sscanf(name[i+1:], "%d", &ord)
		base = name[:i]
		ord--
	}
	if base == "rangeslice" {
		// "rangeslice#k": the slice ranged over by the k-th "for ... range <slice>" of the function (the value is
		// evaluated once before the loop and has no name in the source when it is a call result)
		if ord < 0 {
			ord = 0
		}
		idxs := fr.info.cells["rangeindex"]
		if ord >= len(idxs) {
			return SV{}, false
		}
		for _, b := range fr.fn.Blocks {
			for _, in := range b.Instrs {
				var x, i ssa.Value
				switch ia := in.(type) {
				case *ssa.IndexAddr:
					x, i = ia.X, ia.Index
				case *ssa.Index:
					x, i = ia.X, ia.Index
				default:
					continue
				}
				u, ok := i.(*ssa.UnOp)
				if !ok || u.X != ssa.Value(idxs[ord]) {
					continue
				}
				if _, isSl := under(x.Type()).(*types.Slice); !isSl {
					continue
				}
				v, ok := fr.vals[x]
				if !ok {
					return SV{T: ex.freshTyped(st, "notlive_rangeslice", x.Type()), Ty: goTy(ex.c, x.Type())}, true
				}
				if t, isT := v.(T); isT {
					return SV{T: t, Ty: goTy(ex.c, x.Type())}, true
				}
			}
		}
		return SV{}, false
	}
	as := fr.info.cells[base]
	if len(as) == 0 {
		return SV{}, false
	}
	if ord >= len(as) {
		return SV{}, false
	}
	if len(as) > 1 && !strings.Contains(name, "#") {
		// ambiguous: prefer the one that currently has a value
		var live []*ssa.Alloc
		for _, a := range as {
			if _, ok := fr.cells[a]; ok || a.Heap {
				if _, ok2 := fr.vals[a]; ok2 {
					live = append(live, a)
				}
			}
		}
		if len(live) > 1 {
			sfail("local %q is ambiguous in %s (%d declarations); write %s#k", name, fr.fn.Name(), len(as), name)
		}
		if len(live) == 1 {
			as = live
		}
		ord = 0
	}
	a := as[ord]
	et := a.Type().(*types.Pointer).Elem()
	pv, ok := fr.vals[a]
	if !ok {
		// declared in the function but not reached on this path: the clause has to hold for any value of it
		return SV{T: ex.freshTyped(st, "notlive_"+base, et), Ty: goTy(ex.c, et)}, true
	}
	p := pv.(*Ptr)
	if p.Kind == PCell {
		if _, has := ex.cellFrame(st, p.Cell).cells[p.Cell]; !has {
			return SV{T: ex.freshTyped(st, "notlive_"+base, et), Ty: goTy(ex.c, et)}, true
		}
	}
	return SV{T: ex.load(st, p), Ty: goTy(ex.c, et)}, true
}

// havocLoop forgets everything the loop body may change.
func (ex *Exec) havocLoop(st *State, fr *Frame, li *LoopInfo, spec *LoopSpec) (explicit []modTarget, isExplicit bool) {
	heapAll := false
	heaps := map[string]string{}
	for b := range li.Body {
		for _, in := range b.Instrs {
			switch x := in.(type) {
			case *ssa.Store:
				ex.storeTargets(fr, x.Addr, heaps, st)
			case *ssa.Call:
				if ex.callModifiesAll(fr, &x.Call, heaps) {
					heapAll = true
				}
			case *ssa.Defer, *ssa.Go:
				ex.unsup("defer/go inside a loop")
			case *ssa.MapUpdate:
				heapAll = true
			}
		}
	}
	// cells assigned in the loop
	for b := range li.Body {
		for _, in := range b.Instrs {
			if s, ok := in.(*ssa.Store); ok {
				if a := rootAlloc(s.Addr); a != nil && !a.Heap {
					if _, has := fr.cells[a]; has {
						fr.cells[a] = ex.freshTyped(st, a.Comment, a.Type().(*types.Pointer).Elem())
					}
				}
			}
		}
	}
	if spec != nil && len(spec.Modifies) > 0 {
		// explicit loop frame: only these locations change (checked at every store in the body)
		ev := ex.loopEnv(st, fr)
		tg := ex.modTargets(ev, spec.Modifies)
		ex.applyModifies(st, ev, spec.Modifies)
		st.alloc = ex.bumpAlloc(st)
		return tg, true
	}
	if heapAll {
		ex.havocAll(st)
	} else {
		names := make([]string, 0, len(heaps))
		for n := range heaps {
			names = append(names, n)
		}
		sort.Strings(names)
		for _, n := range names {
			st.heap[n] = ex.fresh(st, n, heaps[n])
		}
	}
	st.alloc = ex.bumpAlloc(st)
	return nil, false
}

// checkLoopFrame: at a back edge of a loop with its own modifies clause, every location outside that clause
// that existed at the loop head must hold the value it had at the loop head (the clause was used to keep
// everything else across the havoc at the head, so it has to be true of every iteration that continues).
func (ex *Exec) checkLoopFrame(st *State, fr *Frame, li *LoopInfo, ls *loopState, where string) {
	fnKey := funcKey(fr.fn)
	for _, t := range ls.targets {
		if t.all {
			return
		}
	}
	tags := ex.funcTags(fr.contract)
	if st.epoch != ls.head.epoch {
		ex.oblige(st, fnKey, fmt.Sprintf("loopframe@loop%d", li.Ordinal), tags, False, where, "the loop body calls something that may modify anything, but the loop's modifies clause is not '*'")
		return
	}
	names := map[string]bool{}
	for n := range st.heap {
		names[n] = true
	}
	for n := range ls.head.heap {
		names[n] = true
	}
	var ns []string
	for n := range names {
		ns = append(ns, n)
	}
	sort.Strings(ns)
	for _, n := range ns {
		srt, ok := ex.c.heapSort(n)
		if !ok {
			continue
		}
		cur, prev := st.Heap(n, srt), ls.head.Heap(n, srt)
		if cur.S == prev.S {
			continue
		}
		whole := false
		var refs []T
		for _, t := range ls.targets {
			if t.heap != n {
				continue
			}
			if t.ref == nil {
				whole = true
				break
			}
			refs = append(refs, *t.ref)
		}
		if whole {
			continue
		}
		ksort, _, isArr := arrayParts(srt)
		if !isArr {
			// a scalar global
			ex.oblige(st, fnKey, fmt.Sprintf("loopframe@loop%d:%s", li.Ordinal, n), tags, Eq(cur, prev), where, "the loop body changes "+n+" which is not in the loop's modifies clause")
			continue
		}
		ex.nfresh++
		q := T{fmt.Sprintf("r!lf%d", ex.nfresh), ksort}
		hyp := []T{}
		if ksort == SInt && n[0] != 'G' && !strings.HasPrefix(n, "gh_") {
			hyp = append(hyp, App("<", SBool, q, ls.head.alloc)) // objects allocated during the iteration are not constrained
		}
		for _, r := range refs {
			hyp = append(hyp, Not(Eq(q, r)))
		}
		body := Eq(Select(cur, q), Select(prev, q))
		if len(hyp) > 0 {
			body = Implies(And(hyp...), body)
		}
		goal := T{fmt.Sprintf("(forall ((%s %s)) %s)", q.S, ksort, body.S), SBool}
		ex.oblige(st, fnKey, fmt.Sprintf("loopframe@loop%d:%s", li.Ordinal, n), tags, goal, where, "the loop body changes "+n+" outside the loop's modifies clause")
	}
}

func (ex *Exec) bumpAlloc(st *State) T {
	a := ex.fresh(st, "alloc", SInt)
	st.assume(App(">=", SBool, a, st.alloc))
	return a
}

func (ex *Exec) havocAll(st *State) {
	// Escaping locals that are never assigned after the entry block of their function (a parameter captured by a
	// function literal, typically) live in a box that nothing can write: no pointer to it exists outside the
	// function literals that capture it, and those only read it. "May modify anything" does not reach such a box.
	type keep struct {
		hn, hs string
		ref, v T
	}
	var keeps []keep
	for _, fr := range st.frames {
		for v, pv := range fr.vals {
			a, ok := v.(*ssa.Alloc)
			if !ok || !a.Heap || !immutableBox(a) {
				continue
			}
			p, ok := pv.(*Ptr)
			if !ok || p.Kind != PBox || len(p.Path) != 0 {
				continue
			}
			hn, hs := ex.c.BoxHeap(ex.c.SortOf(p.Base))
			keeps = append(keeps, keep{hn, hs, p.Ref, ex.define(st, "kept_"+a.Comment, Select(st.Heap(hn, hs), p.Ref))})
		}
	}
	sort.Slice(keeps, func(i, j int) bool { return keeps[i].ref.S < keeps[j].ref.S })
	st.epoch = ex.nextEpoch()
	st.heap = map[string]T{}
	for _, k := range keeps {
		ex.setHeap(st, k.hn, Store(st.Heap(k.hn, k.hs), k.ref, k.v))
	}
}

var immutableBoxMemo = map[*ssa.Alloc]bool{}
var immutableBoxMu sync.Mutex

// immutableBox: every store to the box is in the entry block of its function, and the function literals that capture
// it only load from it (no store, no address taken further).
func immutableBox(a *ssa.Alloc) bool {
	immutableBoxMu.Lock()
	defer immutableBoxMu.Unlock()
	if r, ok := immutableBoxMemo[a]; ok {
		return r
	}
	var onlyLoads func(v ssa.Value, entryStoresOK bool, depth int) bool
	onlyLoads = func(v ssa.Value, entryStoresOK bool, depth int) bool {
		if depth > 4 || v.Referrers() == nil {
			return false
		}
		for _, r := range *v.Referrers() {
			switch x := r.(type) {
			case *ssa.DebugRef:
			case *ssa.UnOp:
				if x.Op != token.MUL {
					return false
				}
			case *ssa.Store:
				if x.Addr != v || x.Val == v || !entryStoresOK || x.Block() != x.Parent().Blocks[0] {
					return false
				}
			case *ssa.MakeClosure:
				fn := x.Fn.(*ssa.Function)
				for i, b := range x.Bindings {
					if b == v {
						if !onlyLoads(fn.FreeVars[i], false, depth+1) {
							return false
						}
					}
				}
			default:
				return false
			}
		}
		return true
	}
	r := onlyLoads(a, true, 0)
	immutableBoxMemo[a] = r
	return r
}

var globalEpoch int

func (ex *Exec) nextEpoch() int {
	globalEpoch++
	return globalEpoch
}

func rootAlloc(v ssa.Value) *ssa.Alloc {
	for {
		switch x := v.(type) {
		case *ssa.Alloc:
			return x
		case *ssa.FieldAddr:
			v = x.X
		case *ssa.IndexAddr:
			if _, ok := under(x.X.Type()).(*types.Pointer); ok {
				v = x.X
			} else {
				return nil
			}
		default:
			return nil
		}
	}
}

// storeTargets records which heaps a store through addr may change (syntactic, by type).
func (ex *Exec) storeTargets(fr *Frame, addr ssa.Value, heaps map[string]string, st *State) {
	c := ex.c
	switch x := addr.(type) {
	case *ssa.Alloc:
		if x.Heap {
			et := x.Type().(*types.Pointer).Elem()
			ex.heapsOfObject(et, heaps)
		}
	case *ssa.FieldAddr:
		if a := rootAlloc(x); a != nil && !a.Heap {
			return
		}
		// walk up to the outermost field selection on a pointer
		base := x
		for {
			if inner, ok := base.X.(*ssa.FieldAddr); ok {
				base = inner
				continue
			}
			if inner, ok := base.X.(*ssa.IndexAddr); ok {
				if _, isPtr := under(inner.X.Type()).(*types.Pointer); isPtr {
					if fa, ok2 := inner.X.(*ssa.FieldAddr); ok2 {
						base = fa
						continue
					}
				}
				// element of a slice: element heap
				ex.storeTargets(fr, inner, heaps, st)
				return
			}
			break
		}
		st0 := under(base.X.Type()).(*types.Pointer).Elem()
		hn, hs := c.FieldHeap(st0, base.Field)
		heaps[hn] = hs
	case *ssa.IndexAddr:
		if a := rootAlloc(x); a != nil && !a.Heap {
			return
		}
		switch t := under(x.X.Type()).(type) {
		case *types.Slice:
			hn, hs := c.ElemHeap(c.SortOf(t.Elem()))
			heaps[hn] = hs
		case *types.Pointer:
			if fa, ok := x.X.(*ssa.FieldAddr); ok {
				ex.storeTargets(fr, fa, heaps, st)
				return
			}
			hn, hs := c.ElemHeap(c.SortOf(under(t.Elem()).(*types.Array).Elem()))
			heaps[hn] = hs
		}
	case *ssa.Global:
		n, s := c.GlobalHeap(x)
		heaps[n] = s
	default:
		// pointer loaded from somewhere: by type
		et := under(addr.Type()).(*types.Pointer).Elem()
		ex.heapsOfObject(et, heaps)
	}
}

func (ex *Exec) heapsOfObject(et types.Type, heaps map[string]string) {
	c := ex.c
	switch t := under(et).(type) {
	case *types.Struct:
		for i := 0; i < t.NumFields(); i++ {
			hn, hs := c.FieldHeap(et, i)
			heaps[hn] = hs
		}
	case *types.Array:
		hn, hs := c.ElemHeap(c.SortOf(t.Elem()))
		heaps[hn] = hs
	default:
		hn, hs := c.BoxHeap(c.SortOf(et))
		heaps[hn] = hs
	}
}

// ---- instructions -------------------------------------------------------------------------

func (ex *Exec) step(st *State) []*State {
	fr := st.top()
	if fr.idx >= len(fr.block.Instrs) {
		ex.unsup("fell off block %d of %s", fr.block.Index, fr.fn.Name())
	}
	in := fr.block.Instrs[fr.idx]
	c := ex.c
	adv := func() { fr.idx++ }
	switch x := in.(type) {
	case *ssa.DebugRef:
		adv()
	case *ssa.Alloc:
		et := x.Type().(*types.Pointer).Elem()
		if !x.Heap {
			fr.cells[x] = c.Zero(et)
			fr.vals[x] = &Ptr{Kind: PCell, Cell: x, Base: et}
		} else {
			ref := ex.newRef(st)
			switch t := under(et).(type) {
			case *types.Struct:
				for i := 0; i < t.NumFields(); i++ {
					hn, hs := c.FieldHeap(et, i)
					ex.setHeap(st, hn, Store(st.Heap(hn, hs), ref, c.Zero(t.Field(i).Type())))
				}
				fr.vals[x] = &Ptr{Kind: PObj, Ref: ref, Base: et}
			case *types.Array:
				hn, hs := c.ElemHeap(c.SortOf(t.Elem()))
				ex.setHeap(st, hn, Store(st.Heap(hn, hs), ref, c.Zero(et)))
				fr.vals[x] = &Ptr{Kind: PArr, Ref: ref, Base: t.Elem()}
			default:
				hn, hs := c.BoxHeap(c.SortOf(et))
				ex.setHeap(st, hn, Store(st.Heap(hn, hs), ref, c.Zero(et)))
				fr.vals[x] = &Ptr{Kind: PBox, Ref: ref, Base: et}
			}
		}
		adv()
	case *ssa.FieldAddr:
		p := ex.ptr(st, fr, ex.get(st, fr, x.X), x.X.Type(), x, true)
		stT := under(x.X.Type()).(*types.Pointer).Elem()
		np := *p
		np.Path = append(append([]Sel{}, p.Path...), Sel{Field: x.Field, Struct: stT})
		fr.vals[x] = &np
		adv()
	case *ssa.IndexAddr:
		idx := ex.index64(st, fr, x.Index)
		switch t := under(x.X.Type()).(type) {
		case *types.Slice:
			s := ex.term(st, ex.get(st, fr, x.X))
			ex.safety(st, fr, x, "bounds", And(bvCmp("bvsle", bvConst(0, 64), idx), bvCmp("bvslt", idx, SlLen(s))))
			at := ex.define(st, "idx", bvBin("bvadd", SlOff(s), idx))
			fr.vals[x] = &Ptr{Kind: PArr, Ref: SlArr(s), Base: t.Elem(), Path: []Sel{{Index: &at, ElemT: t.Elem()}}}
		case *types.Pointer:
			arrT := under(t.Elem()).(*types.Array)
			p := ex.ptr(st, fr, ex.get(st, fr, x.X), x.X.Type(), x, false)
			ex.safety(st, fr, x, "bounds", And(bvCmp("bvsle", bvConst(0, 64), idx), bvCmp("bvslt", idx, bvConst(uint64(arrT.Len()), 64))))
			np := *p
			i2 := idx
			np.Path = append(append([]Sel{}, p.Path...), Sel{Index: &i2, ElemT: arrT.Elem()})
			fr.vals[x] = &np
		default:
			ex.unsup("IndexAddr on %s", x.X.Type())
		}
		adv()
	case *ssa.Index:
		idx := ex.index64(st, fr, x.Index)
		switch t := under(x.X.Type()).(type) {
		case *types.Array:
			a := ex.term(st, ex.get(st, fr, x.X))
			ex.safety(st, fr, x, "bounds", And(bvCmp("bvsle", bvConst(0, 64), idx), bvCmp("bvslt", idx, bvConst(uint64(t.Len()), 64))))
			fr.vals[x] = Select(a, idx)
		default:
			ex.unsup("Index on %s", x.X.Type())
		}
		adv()
	case *ssa.Field:
		v := ex.term(st, ex.get(st, fr, x.X))
		si := c.StructOf(x.X.Type())
		fr.vals[x] = c.FieldOf(si, v, x.Field)
		adv()
	case *ssa.UnOp:
		ex.unop(st, fr, x)
		adv()
	case *ssa.BinOp:
		fr.vals[x] = ex.define(st, x.Name(), ex.binop(st, fr, x))
		adv()
	case *ssa.Store:
		p := ex.ptr(st, fr, ex.get(st, fr, x.Addr), x.Addr.Type(), x, true)
		v := ex.get(st, fr, x.Val)
		ex.store(st, fr, p, ex.term(st, v), x)
		adv()
	case *ssa.Convert:
		fr.vals[x] = ex.convert(st, fr, x)
		adv()
	case *ssa.ChangeType:
		fr.vals[x] = ex.get(st, fr, x.X)
		adv()
	case *ssa.ChangeInterface:
		fr.vals[x] = ex.get(st, fr, x.X)
		adv()
	case *ssa.MakeInterface:
		v := ex.get(st, fr, x.X)
		switch under(x.X.Type()).(type) {
		case *types.Pointer, *types.Interface, *types.Signature, *types.Map, *types.Chan:
			tv := ex.term(st, v)
			if pv, ok := ex.promotedView(st, tv, x.X.Type(), x.Type()); ok {
				tv = pv
			}
			fr.vals[x] = tv
		default:
			// boxed value
			tv := ex.term(st, v)
			ref := ex.newRef(st)
			hn, hs := c.BoxHeap(tv.Sort)
			ex.setHeap(st, hn, Store(st.Heap(hn, hs), ref, tv))
			fr.vals[x] = ref
		}
		adv()
	case *ssa.TypeAssert:
		v := ex.term(st, ex.get(st, fr, x.X))
		if x.CommaOk {
			ok := ex.fresh(st, "typeok", SBool)
			fr.vals[x] = Tuple{v, ok}
		} else if it, ok := under(x.AssertedType).(*types.Interface); ok && types.Implements(x.X.Type(), it) {
			// interface-to-interface conversion that the static type guarantees (fi.Close on an embedded io.Closer):
			// the value is unchanged; it panics only on a nil interface
			ex.safety(st, fr, x, "nil", Not(Eq(v, Nil)))
			fr.vals[x] = v
		} else {
			ex.unsup("type assertion without comma-ok")
		}
		adv()
	case *ssa.Extract:
		tup, ok := ex.get(st, fr, x.Tuple).(Tuple)
		if !ok {
			ex.unsup("extract from non-tuple")
		}
		fr.vals[x] = tup[x.Index]
		adv()
	case *ssa.Phi:
		found := false
		for i, p := range fr.block.Preds {
			if p == fr.prev {
				fr.vals[x] = ex.get(st, fr, x.Edges[i])
				found = true
				break
			}
		}
		if !found {
			ex.unsup("phi without matching predecessor")
		}
		adv()
	case *ssa.Slice:
		fr.vals[x] = ex.slice(st, fr, x)
		adv()
	case *ssa.MakeSlice:
		ln := ex.index64(st, fr, x.Len)
		cp := ex.index64(st, fr, x.Cap)
		ex.safety(st, fr, x, "alloc", And(bvCmp("bvsle", bvConst(0, 64), ln), bvCmp("bvsle", ln, cp), bvCmp("bvsle", cp, maxLen)))
		et := under(x.Type()).(*types.Slice).Elem()
		ex.allocObligation(st, fr, x, cp, et)
		ref := ex.newRef(st)
		hn, hs := c.ElemHeap(c.SortOf(et))
		ex.setHeap(st, hn, Store(st.Heap(hn, hs), ref, c.ZeroOfSort(ArraySort(BV(64), c.SortOf(et)))))
		fr.vals[x] = MkSlice(ref, bvConst(0, 64), ln, cp)
		adv()
	case *ssa.MakeClosure:
		fn := x.Fn.(*ssa.Function)
		cl := &Closure{Fn: fn}
		for _, b := range x.Bindings {
			cl.Bindings = append(cl.Bindings, ex.get(st, fr, b))
		}
		cl.ID = ex.fresh(st, "closure", SInt)
		st.assume(App(">", SBool, cl.ID, Nil))
		st.closures[cl.ID.S] = cl
		fr.vals[x] = cl
		adv()
	case *ssa.MakeMap:
		ref := ex.newRef(st)
		fr.vals[x] = ref
		ex.mapInit(st, x.Type(), ref)
		adv()
	case *ssa.MapUpdate:
		ex.mapUpdate(st, fr, x)
		adv()
	case *ssa.Lookup:
		ex.lookup(st, fr, x)
		adv()
	case *ssa.Range:
		ex.rangeInit(st, fr, x)
		adv()
	case *ssa.Next:
		ex.rangeNext(st, fr, x)
		adv()
	case *ssa.Call:
		return ex.call(st, fr, x)
	case *ssa.Defer:
		d := &deferred{call: x.Call, pos: x.Pos(), site: fr.info.callOrd[x]}
		if !x.Call.IsInvoke() {
			d.fn = ex.get(st, fr, x.Call.Value)
		} else {
			d.fn = ex.get(st, fr, x.Call.Value)
		}
		for _, a := range x.Call.Args {
			d.args = append(d.args, ex.get(st, fr, a))
		}
		fr.defers = append(fr.defers, d)
		adv()
	case *ssa.RunDefers:
		if len(fr.defers) == 0 {
			adv()
			return nil
		}
		d := fr.defers[len(fr.defers)-1]
		fr.defers = fr.defers[:len(fr.defers)-1]
		return ex.callDeferred(st, fr, d, x)
	case *ssa.If:
		cond := ex.term(st, ex.get(st, fr, x.Cond))
		tb, fb := fr.block.Succs[0], fr.block.Succs[1]
		var forks []*State
		if cond.S != "true" {
			other := st.clone()
			other.assume(Not(cond))
			if !other.dead {
				ofr := other.top()
				ex.jump(other, ofr, fb)
				forks = append(forks, other)
			}
		}
		st.assume(cond)
		if !st.dead {
			ex.jump(st, fr, tb)
		}
		return forks
	case *ssa.Jump:
		ex.jump(st, fr, fr.block.Succs[0])
	case *ssa.Return:
		ex.ret(st, fr, x)
	case *ssa.Panic:
		k := fmt.Sprintf("panic@%d", fr.info.ord[x])
		ex.oblige(st, funcKey(fr.fn), k, ex.safetyTags(fr), False, ex.pos(x.Pos()), "explicit panic must be unreachable")
		st.done = true
	case *ssa.Go:
		ex.unsup("go statement")
	case *ssa.Select, *ssa.Send, *ssa.MakeChan:
		ex.unsup("channel operation")
	default:
		ex.unsup("instruction %T (%s)", in, in)
	}
	return nil
}

func (ex *Exec) index64(st *State, fr *Frame, v ssa.Value) T {
	if v == nil {
		return T{}
	}
	t := ex.term(st, ex.get(st, fr, v))
	return bvResize(t, 64, !isUnsigned(v.Type()))
}

func (ex *Exec) unop(st *State, fr *Frame, x *ssa.UnOp) {
	switch x.Op {
	case token.MUL:
		p := ex.ptr(st, fr, ex.get(st, fr, x.X), x.X.Type(), x, true)
		v := ex.load(st, p)
		et := under(x.X.Type()).(*types.Pointer).Elem()
		v = ex.define(st, x.Name(), v)
		if p.Kind != PCell {
			ex.assumeTyped(st, v, et)
		}
		fr.vals[x] = ex.liftFunc(st, v, et)
	case token.NOT:
		fr.vals[x] = Not(ex.term(st, ex.get(st, fr, x.X)))
	case token.SUB:
		v := ex.term(st, ex.get(st, fr, x.X))
		if !isBV(v.Sort) {
			ex.unsup("negation of %s", v.Sort)
		}
		fr.vals[x] = App("bvneg", v.Sort, v)
	case token.XOR:
		v := ex.term(st, ex.get(st, fr, x.X))
		fr.vals[x] = App("bvnot", v.Sort, v)
	default:
		ex.unsup("unary operator %s", x.Op)
	}
}

// liftFunc maps a loaded function value back to the closure it denotes, when known.
func (ex *Exec) liftFunc(st *State, v T, t types.Type) Val {
	if _, ok := under(t).(*types.Signature); ok {
		if cl, ok := st.closures[v.S]; ok {
			return cl
		}
		// a function value read back from a variable: look through the definitions for the store that put it there
		if r, ok := ex.resolveTerm(v.S, 0); ok {
			if cl, ok := st.closures[r]; ok {
				return cl
			}
			if r == Nil.S {
				return Nil
			}
		}
	}
	return v
}

// resolveTerm follows define-fun names and select-over-store with syntactically decidable indices
// (equal text, or two distinct fresh references ref!k) to a simpler term.
func (ex *Exec) resolveTerm(s string, depth int) (string, bool) {
	if depth > 200 {
		return "", false
	}
	if d, ok := ex.defs[s]; ok {
		return ex.resolveTerm(d, depth+1)
	}
	if !strings.HasPrefix(s, "(select ") {
		return s, true
	}
	p := splitSexp(s)
	if len(p) != 3 {
		return s, true
	}
	arr, idx := p[1], p[2]
	for k := 0; k < 200; k++ {
		if d, ok := ex.defs[arr]; ok {
			arr = d
			continue
		}
		if !strings.HasPrefix(arr, "(store ") {
			return s, true
		}
		q := splitSexp(arr)
		if len(q) != 4 {
			return s, true
		}
		if q[2] == idx {
			return ex.resolveTerm(q[3], depth+1)
		}
		if strings.HasPrefix(q[2], "ref!") && strings.HasPrefix(idx, "ref!") {
			arr = q[1] // distinct allocations
			continue
		}
		return s, true
	}
	return s, true
}

func (ex *Exec) binop(st *State, fr *Frame, x *ssa.BinOp) T {
	a := ex.term(st, ex.get(st, fr, x.X))
	b := ex.term(st, ex.get(st, fr, x.Y))
	signed := !isUnsigned(x.X.Type())
	pick := func(s, u string) string {
		if signed {
			return s
		}
		return u
	}
	switch x.Op {
	case token.EQL:
		return ex.equal(a, b, x.X.Type())
	case token.NEQ:
		return Not(ex.equal(a, b, x.X.Type()))
	case token.LAND:
		return And(a, b)
	case token.LOR:
		return Or(a, b)
	}
	if a.Sort == SStr {
		switch x.Op {
		case token.ADD:
			return App("str_cat", SStr, a, b)
		}
		ex.unsup("string operator %s", x.Op)
	}
	if a.Sort == SFloat {
		// floating point is abstracted: results are unconstrained
		switch x.Op {
		case token.LSS, token.LEQ, token.GTR, token.GEQ:
			return ex.fresh(st, "fcmp", SBool)
		}
		return ex.fresh(st, "fop", SFloat)
	}
	if !isBV(a.Sort) {
		ex.unsup("binary operator %s on %s", x.Op, a.Sort)
	}
	w := bvWidth(a.Sort)
	switch x.Op {
	case token.ADD:
		return bvBin("bvadd", a, b)
	case token.SUB:
		return bvBin("bvsub", a, b)
	case token.MUL:
		return bvBin("bvmul", a, b)
	case token.QUO:
		ex.safety(st, fr, x, "div", Not(Eq(b, bvConst(0, w))))
		return bvBin(pick("bvsdiv", "bvudiv"), a, b)
	case token.REM:
		ex.safety(st, fr, x, "div", Not(Eq(b, bvConst(0, w))))
		return bvBin(pick("bvsrem", "bvurem"), a, b)
	case token.AND:
		return bvBin("bvand", a, b)
	case token.OR:
		return bvBin("bvor", a, b)
	case token.XOR:
		return bvBin("bvxor", a, b)
	case token.AND_NOT:
		return bvBin("bvand", a, App("bvnot", b.Sort, b))
	case token.SHL, token.SHR:
		bw := bvWidth(b.Sort)
		if !isUnsigned(x.Y.Type()) {
			ex.safety(st, fr, x, "shift", bvCmp("bvsge", b, bvConst(0, bw)))
		}
		op := "bvshl"
		if x.Op == token.SHR {
			op = pick("bvashr", "bvlshr")
		}
		var cnt T
		guard := True
		if bw <= w {
			cnt = bvResize(b, w, false)
		} else {
			guard = bvCmp("bvult", b, bvConst(uint64(w), bw))
			cnt = bvResize(b, w, false)
		}
		r := bvBin(op, a, cnt)
		if guard.S != "true" {
			over := bvConst(0, w)
			if op == "bvashr" {
				over = bvBin("bvashr", a, bvConst(uint64(w-1), w))
			}
			r = Ite(guard, r, over)
		}
		return r
	case token.LSS:
		return bvCmp(pick("bvslt", "bvult"), a, b)
	case token.LEQ:
		return bvCmp(pick("bvsle", "bvule"), a, b)
	case token.GTR:
		return bvCmp(pick("bvsgt", "bvugt"), a, b)
	case token.GEQ:
		return bvCmp(pick("bvsge", "bvuge"), a, b)
	}
	ex.unsup("binary operator %s", x.Op)
	return T{}
}

func (ex *Exec) equal(a, b T, t types.Type) T {
	if a.Sort != b.Sort {
		ex.unsup("comparison of sorts %s and %s", a.Sort, b.Sort)
	}
	if a.Sort == SSlice {
		// only comparison with nil is legal in Go
		if b.S == NilSlice.S {
			return Eq(SlArr(a), Nil)
		}
		if a.S == NilSlice.S {
			return Eq(SlArr(b), Nil)
		}
	}
	return Eq(a, b)
}

func (ex *Exec) convert(st *State, fr *Frame, x *ssa.Convert) Val {
	v := ex.get(st, fr, x.X)
	from, to := x.X.Type(), x.Type()
	if isInteger(from) && isInteger(to) {
		t := ex.term(st, v)
		fw, tw := intWidth(from), intWidth(to)
		r := bvResize(t, tw, !isUnsigned(from))
		if fr.contract != nil && fr.contract.Flags["lossless"] && (tw < fw || (tw == fw && isUnsigned(from) != isUnsigned(to))) {
			// the conversion must not change the mathematical value
			var goal T
			if tw < fw {
				back := bvResize(r, fw, !isUnsigned(to))
				goal = Eq(back, t)
				if isUnsigned(to) && !isUnsigned(from) {
					goal = And(goal, bvCmp("bvsge", t, bvConst(0, fw)))
				}
			} else {
				goal = bvCmp("bvsge", t, bvConst(0, fw))
			}
			k := fmt.Sprintf("conv@%d", fr.info.ord[x])
			ex.oblige(st, funcKey(fr.fn), k, ex.safetyTags(fr), goal, ex.pos(x.Pos()), x.String())
		}
		return r
	}
	fs, ts := ex.c.SortOf(from), ex.c.SortOf(to)
	if fs == ts {
		return v
	}
	if (fs == SFloat) != (ts == SFloat) {
		// int <-> float: abstract
		return ex.fresh(st, "fconv", ts)
	}
	if fs == SStr && ts == SSlice || fs == SSlice && ts == SStr {
		return ex.freshTyped(st, "strconv", to)
	}
	if ts == SInt && fs == SInt {
		return v
	}
	if ts == SInt && isBV(fs) || fs == SInt && isBV(ts) {
		// uintptr <-> unsafe.Pointer
		return ex.freshTyped(st, "ptrconv", to)
	}
	ex.unsup("conversion %s -> %s", from, to)
	return nil
}

func (ex *Exec) slice(st *State, fr *Frame, x *ssa.Slice) Val {
	c := ex.c
	z := bvConst(0, 64)
	lo := z
	if x.Low != nil {
		lo = ex.index64(st, fr, x.Low)
	}
	switch t := under(x.X.Type()).(type) {
	case *types.Slice:
		s := ex.term(st, ex.get(st, fr, x.X))
		hi := SlLen(s)
		if x.High != nil {
			hi = ex.index64(st, fr, x.High)
		}
		mx := SlCap(s)
		if x.Max != nil {
			mx = ex.index64(st, fr, x.Max)
		}
		goal := And(bvCmp("bvsle", z, lo), bvCmp("bvsle", lo, hi), bvCmp("bvsle", hi, mx), bvCmp("bvsle", mx, SlCap(s)))
		ex.safety(st, fr, x, "slice", goal)
		r := MkSlice(SlArr(s), bvBin("bvadd", SlOff(s), lo), bvBin("bvsub", hi, lo), bvBin("bvsub", mx, lo))
		return ex.define(st, x.Name(), r)
	case *types.Basic: // string
		s := ex.term(st, ex.get(st, fr, x.X))
		ln := App("str_len", BV(64), s)
		hi := ln
		if x.High != nil {
			hi = ex.index64(st, fr, x.High)
		}
		ex.safety(st, fr, x, "slice", And(bvCmp("bvsle", z, lo), bvCmp("bvsle", lo, hi), bvCmp("bvsle", hi, ln)))
		r := ex.fresh(st, "substr", SStr)
		st.assume(Eq(App("str_len", BV(64), r), bvBin("bvsub", hi, lo)))
		return r
	case *types.Pointer:
		at := under(t.Elem()).(*types.Array)
		n := bvConst(uint64(at.Len()), 64)
		hi := n
		if x.High != nil {
			hi = ex.index64(st, fr, x.High)
		}
		mx := n
		if x.Max != nil {
			mx = ex.index64(st, fr, x.Max)
		}
		p := ex.ptr(st, fr, ex.get(st, fr, x.X), x.X.Type(), x, true)
		ex.safety(st, fr, x, "slice", And(bvCmp("bvsle", z, lo), bvCmp("bvsle", lo, hi), bvCmp("bvsle", hi, mx), bvCmp("bvsle", mx, n)))
		var ref T
		if p.Kind == PArr && len(p.Path) == 0 {
			ref = p.Ref
		} else {
			// array embedded in an object or a local: the slice aliases it through a snapshot with write-back
			ref = ex.newRef(st)
			hn, hs := c.ElemHeap(c.SortOf(at.Elem()))
			ex.setHeap(st, hn, Store(st.Heap(hn, hs), ref, ex.load(st, p)))
			st.snaps[ref.S] = p
		}
		return ex.define(st, x.Name(), MkSlice(ref, lo, bvBin("bvsub", hi, lo), bvBin("bvsub", mx, lo)))
	}
	ex.unsup("slice of %s", x.X.Type())
	return nil
}

// allocObligation: a make() whose size the contract bounds (flag alloc<=EXPR is handled via 'at alloc@k' asserts).
func (ex *Exec) allocObligation(st *State, fr *Frame, x *ssa.MakeSlice, cp T, et types.Type) {
	if fr.contract == nil {
		return
	}
	point := fmt.Sprintf("alloc@%d", fr.info.ord[x])
	for i, cl := range fr.contract.Asserts[point] {
		ev := ex.loopEnv(st, fr)
		ev.vars["size"] = SV{T: cp, Ty: goTy(ex.c, tyInt)}
		ex.oblige(st, funcKey(fr.fn), fmt.Sprintf("%s:%s", point, labelOr(cl, i)), clauseTags(cl, fr.contract), ev.Bool(cl.E), ex.pos(x.Pos()), cl.Src)
	}
}

func (ex *Exec) ret(st *State, fr *Frame, x *ssa.Return) {
	var res []Val
	for _, r := range x.Results {
		res = append(res, ex.get(st, fr, r))
	}
	if len(st.frames) > 1 {
		// return from an inlined call
		st.frames = st.frames[:len(st.frames)-1]
		parent := st.top()
		if fr.retTo != nil {
			switch len(res) {
			case 0:
			case 1:
				parent.vals[fr.retTo] = res[0]
			default:
				parent.vals[fr.retTo] = Tuple(res)
			}
		}
		if !fr.noAdv {
			parent.idx++
		}
		return
	}
	// top level: postconditions
	var rt []T
	for _, r := range res {
		rt = append(rt, ex.term(st, r))
	}
	ct := fr.contract
	fnKey := funcKey(fr.fn)
	where := ex.pos(x.Pos())
	if ct != nil {
		// "at return: assert|hint ..." - like an ensures clause, but evaluated at every return instruction with
		// the named locals of the function in scope (it.off, b.next, ...), results under their contract names.
		// A hint is proved here and then serves as a lemma for the postconditions below.
		if as := ct.Asserts["return"]; len(as) > 0 {
			lev := ex.loopEnv(st, fr)
			results := fr.fn.Signature.Results()
			for i := 0; i < results.Len() && i < len(rt); i++ {
				n := results.At(i).Name()
				if i < len(ct.ResultNames) {
					n = ct.ResultNames[i]
				}
				if n == "" || n == "_" {
					n = fmt.Sprintf("r%d", i)
				}
				lev.vars[n] = SV{T: rt[i], Ty: goTy(ex.c, results.At(i).Type())}
			}
			for i, cl := range as {
				var g T
				if cl.Kind == "hint" {
					ok := func() (ok bool) {
						defer func() {
							if r := recover(); r != nil {
								if _, isSpec := r.(specErr); !isSpec {
									panic(r)
								}
								ok = false
							}
						}()
						g = lev.Bool(cl.E)
						return true
					}()
					if !ok {
						continue // names a local that is not live at this return (or was renamed): no lemma here
					}
				} else {
					g = lev.Bool(cl.E)
				}
				if cl.Kind == "hint" {
					ex.oblige(st, fnKey, "hint(return):"+labelOr(cl, i), clauseTags(cl, ct), g, where, cl.Src)
					st.assume(g)
				} else {
					ex.oblige(st, fnKey, "at(return):"+labelOr(cl, i), clauseTags(cl, ct), g, where, cl.Src)
				}
			}
		}
		ev := ex.contractEnv(st, fr.fn, ct, fr.args, rt, st, fr.entry)
		ev.unchanged = func() T {
			tg, _ := ex.frameTargets(st, fr)
			return ex.frameUnchanged(tg, st, fr.entry)
		}
		for i, e := range ct.Ensures {
			g := ev.Bool(e.E)
			ex.oblige(st, fnKey, "ensures:"+labelOr(e, i), clauseTags(e, ct), g, where, e.Src)
			if ct.Flags["cumulative"] {
				// postconditions are proved in the order written; with this flag each one, once stated as an
				// obligation of its own, serves as a lemma for the ones after it (on the same path)
				st.assume(g)
			}
		}
	}
	ex.cover(st, fnKey, "cover:return", ex.funcTags(ct), where)
	st.done = true
}

// pointeeType returns the static type of the location a symbolic pointer designates (nil if unknown).
func (ex *Exec) pointeeType(p *Ptr) types.Type {
	var t types.Type
	path := p.Path
	switch p.Kind {
	case PCell, PBox:
		t = p.Base
	case PObj:
		if len(path) == 0 {
			return p.Base
		}
		si := ex.c.StructOf(p.Base)
		if path[0].Index != nil {
			return nil
		}
		t = si.Fields[path[0].Field].Go
		path = path[1:]
	case PArr:
		if len(path) == 0 {
			return nil
		}
		t = p.Base
		path = path[1:]
	default:
		return nil
	}
	for _, s := range path {
		if s.Index != nil {
			t = s.ElemT
		} else {
			t = ex.c.StructOf(t).Fields[s.Field].Go
		}
	}
	return t
}

// effectiveContract: a function literal whose contract says "implements self <funcspec>" is verified against that
// funcspec (its requires, ensures and modifies come first) plus its own clauses; parameter and result names must be
// the funcspec's.
func effectiveContract(c *Ctx, ct *Contract) (*Contract, error) {
	spec, ok := ct.Implements["self"]
	if !ok {
		return ct, nil
	}
	sp := c.Specs.Contracts[ct.PkgPath+"."+spec]
	if sp == nil {
		return nil, fmt.Errorf("funcspec %s not found", spec)
	}
	if strings.Join(sp.ParamNames, ",") != strings.Join(ct.ParamNames, ",") || strings.Join(sp.ResultNames, ",") != strings.Join(ct.ResultNames, ",") {
		return nil, fmt.Errorf("function literal %s must use the parameter and result names of funcspec %s", ct.Key, spec)
	}
	eff := *ct
	eff.Requires = append(append([]*Clause(nil), sp.Requires...), ct.Requires...)
	eff.Ensures = append(append([]*Clause(nil), sp.Ensures...), ct.Ensures...)
	eff.Modifies = append(append([]*Clause(nil), sp.Modifies...), ct.Modifies...)
	// the two-state facts about assigned captured variables are postconditions of the literal's body
	eff.Ensures = append(eff.Ensures, ct.CapturedPost...)
	if len(eff.Tags) == 0 {
		eff.Tags = sp.Tags
	}
	return &eff, nil
}

// capturedValue reads the current content of a captured variable (v is the pointer the literal holds) in a view.
func (ex *Exec) capturedValue(st *State, v Val, elem types.Type, view HeapView) (SV, bool) {
	switch p := v.(type) {
	case T:
		// pointer to a heap cell (escaping variable): a box, a struct object or an array
		switch under(elem).(type) {
		case *types.Struct, *types.Array:
			return SV{}, false
		}
		hn, hs := ex.c.BoxHeap(ex.c.SortOf(elem))
		return SV{T: Select(view.Heap(hn, hs), p), Ty: goTy(ex.c, elem)}, true
	case *Ptr:
		if p.Kind == PBox && len(p.Path) == 0 {
			hn, hs := ex.c.BoxHeap(ex.c.SortOf(p.Base))
			return SV{T: Select(view.Heap(hn, hs), p.Ref), Ty: goTy(ex.c, elem)}, true
		}
		if p.Kind == PCell && len(p.Path) == 0 {
			fr := ex.cellFrame(st, p.Cell)
			if t, ok := fr.cells[p.Cell]; ok {
				return SV{T: t, Ty: goTy(ex.c, elem)}, true
			}
		}
	}
	return SV{}, false
}

// boolTolerant evaluates a clause; a clause of kind "hint" that cannot be evaluated (it names a local that no
// longer exists) yields ok == false instead of a contract error.
func boolTolerant(ev *Eval, cl *Clause) (g T, ok bool) {
	if cl.Kind != "hint" {
		return ev.Bool(cl.E), true
	}
	defer func() {
		if r := recover(); r != nil {
			if _, isSpec := r.(specErr); !isSpec {
				panic(r)
			}
			ok = false
		}
	}()
	return ev.Bool(cl.E), true
}
