package main

// Evaluation of contract expressions to SMT terms in a given program state.

import (
	"fmt"
	"go/constant"
	"go/types"
	"math/big"
	"sort"
	"strings"
)

type SType struct {
	Go   types.Type // program type, if any
	Key  *SType     // ghost map
	Elem *SType
	Sort string
}

type SV struct {
	T       T
	Ty      *SType
	Untyped *big.Int // untyped integer constant
	IsNil   bool
}

type specErr string

func sfail(f string, a ...interface{}) { panic(specErr(fmt.Sprintf(f, a...))) }

func newBig(v constant.Value) (*big.Int, bool) {
	switch x := constant.Val(v).(type) {
	case int64:
		return big.NewInt(x), true
	case *big.Int:
		return new(big.Int).Set(x), true
	}
	return nil, false
}

// HeapView gives read access to one program state.
type HeapView interface {
	Heap(name, sort string) T
	AllocTerm() T
}

type Eval struct {
	c      *Ctx
	pkg    *types.Package
	vars   map[string]SV
	locals func(name string) (SV, bool) // named local cells (loop invariants)
	view   HeapView
	old    *Eval
	bound  *int
	ex     *Exec
	// unchanged() in a postcondition: every location of the contract's own modifies clause has its old value
	unchanged func() T
}

func (ev *Eval) child() *Eval {
	n := *ev
	n.vars = map[string]SV{}
	for k, v := range ev.vars {
		n.vars[k] = v
	}
	return &n
}

func goTy(c *Ctx, t types.Type) *SType { return &SType{Go: t, Sort: c.SortOf(t)} }

var tyInt = types.Typ[types.Int]

func (ev *Eval) lookupPkg(name string) *types.Package {
	if ev.pkg != nil {
		if ev.pkg.Name() == name {
			return ev.pkg
		}
		for _, imp := range ev.pkg.Imports() {
			if imp.Name() == name {
				return imp
			}
		}
	}
	if ps := ev.c.ByName[name]; len(ps) > 0 {
		return ps[0]
	}
	return nil
}

func (ev *Eval) resolveType(te *TypeExpr) *SType {
	c := ev.c
	switch te.Kind {
	case "ptr":
		e := ev.resolveType(te.Elem)
		if e.Go == nil {
			sfail("pointer to ghost type")
		}
		return goTy(c, types.NewPointer(e.Go))
	case "slice":
		e := ev.resolveType(te.Elem)
		return goTy(c, types.NewSlice(e.Go))
	case "array":
		e := ev.resolveType(te.Elem)
		n := ev.eval(te.N)
		if n.Untyped == nil {
			sfail("array length must be constant")
		}
		return goTy(c, types.NewArray(e.Go, n.Untyped.Int64()))
	case "map":
		k := ev.resolveType(te.Key)
		v := ev.resolveType(te.Elem)
		return &SType{Key: k, Elem: v, Sort: ArraySort(k.Sort, v.Sort)}
	}
	name := te.Name
	switch name {
	case "mem":
		return &SType{Key: goTy(c, tyInt), Elem: goTy(c, types.Typ[types.Uint8]), Sort: ArraySort(BV(64), BV(8))}
	case "ref":
		return &SType{Sort: SInt, Go: types.Typ[types.UnsafePointer]}
	}
	if i := strings.IndexByte(name, '.'); i >= 0 {
		p := ev.lookupPkg(name[:i])
		if p == nil {
			sfail("unknown package %q", name[:i])
		}
		obj := p.Scope().Lookup(name[i+1:])
		if tn, ok := obj.(*types.TypeName); ok {
			return goTy(c, tn.Type())
		}
		sfail("unknown type %s", name)
	}
	if obj := types.Universe.Lookup(name); obj != nil {
		if tn, ok := obj.(*types.TypeName); ok {
			return goTy(c, tn.Type())
		}
	}
	if ev.pkg != nil {
		if tn, ok := ev.pkg.Scope().Lookup(name).(*types.TypeName); ok {
			return goTy(c, tn.Type())
		}
	}
	sfail("unknown type %s", name)
	return nil
}

func (ev *Eval) isTypeName(e Expr) (*SType, bool) {
	switch x := e.(type) {
	case *EIdent:
		if _, ok := ev.vars[x.Name]; ok {
			return nil, false
		}
		if obj := types.Universe.Lookup(x.Name); obj != nil {
			if tn, ok := obj.(*types.TypeName); ok {
				return goTy(ev.c, tn.Type()), true
			}
		}
		if ev.pkg != nil {
			if tn, ok := ev.pkg.Scope().Lookup(x.Name).(*types.TypeName); ok {
				return goTy(ev.c, tn.Type()), true
			}
		}
	case *ESel:
		if id, ok := x.X.(*EIdent); ok {
			if _, isVar := ev.vars[id.Name]; !isVar {
				if p := ev.lookupPkg(id.Name); p != nil {
					if tn, ok := p.Scope().Lookup(x.Name).(*types.TypeName); ok {
						return goTy(ev.c, tn.Type()), true
					}
				}
			}
		}
	case *EType:
		return ev.resolveType(x.Type), true
	}
	return nil, false
}

// concretize turns an untyped constant into a typed value of type ty.
func (ev *Eval) concretize(v SV, ty *SType) SV {
	if v.IsNil {
		switch ty.Sort {
		case SInt:
			return SV{T: Nil, Ty: ty}
		case SSlice:
			return SV{T: NilSlice, Ty: ty}
		}
		sfail("nil used as %s", ty.Sort)
	}
	if v.Untyped == nil {
		return v
	}
	if isBV(ty.Sort) {
		return SV{T: bvConstBig(v.Untyped, bvWidth(ty.Sort)), Ty: ty}
	}
	if ty.Sort == SInt {
		return SV{T: intConst(v.Untyped.Int64()), Ty: ty}
	}
	sfail("constant %s used as %s", v.Untyped, ty.Sort)
	return v
}

func (ev *Eval) typed(v SV) SV {
	if v.Untyped != nil {
		return ev.concretize(v, goTy(ev.c, tyInt))
	}
	if v.IsNil {
		sfail("untyped nil in a context that needs a type")
	}
	return v
}

func (ev *Eval) Bool(e Expr) T {
	v := ev.eval(e)
	if v.T.Sort != SBool {
		sfail("expected a boolean expression, got sort %s", v.T.Sort)
	}
	return v.T
}

func (ev *Eval) pkgObject(p *types.Package, name string) (SV, bool) {
	obj := p.Scope().Lookup(name)
	switch o := obj.(type) {
	case *types.Const:
		if b, ok := under(o.Type()).(*types.Basic); ok {
			if b.Info()&types.IsInteger != 0 {
				bi, ok := newBig(constant.ToInt(o.Val()))
				if !ok {
					return SV{}, false
				}
				if b.Info()&types.IsUntyped != 0 {
					return SV{Untyped: bi}, true
				}
				return SV{T: bvConstBig(bi, intWidth(b)), Ty: goTy(ev.c, o.Type())}, true
			}
			if t, ok := constToT(ev.c, o.Val(), o.Type()); ok {
				ty := o.Type()
				if b.Info()&types.IsUntyped != 0 {
					ty = types.Default(ty)
				}
				return SV{T: t, Ty: goTy(ev.c, ty)}, true
			}
		}
	case *types.Var:
		// package-level variable
		if types.Identical(o.Type(), types.Universe.Lookup("error").Type()) {
			return SV{T: ev.c.ErrConst(p.Name(), name), Ty: goTy(ev.c, o.Type())}, true
		}
		if v, ok := ev.c.ConstGlobal(p.Path(), name); ok {
			return SV{T: v, Ty: goTy(ev.c, o.Type())}, true
		}
		sort := ev.c.SortOf(o.Type())
		hn := "G_" + p.Name() + "_" + name
		ev.c.declHeap(hn, sort)
		return SV{T: ev.view.Heap(hn, sort), Ty: goTy(ev.c, o.Type())}, true
	}
	return SV{}, false
}

func (ev *Eval) ident(name string) SV {
	if v, ok := ev.vars[name]; ok {
		return v
	}
	if ev.locals != nil {
		if v, ok := ev.locals(name); ok {
			return v
		}
	}
	if g, ok := ev.c.Specs.Ghosts[name]; ok {
		ty := ev.resolveType(g.Type)
		hn := "gh_" + name
		ev.c.declHeap(hn, ty.Sort)
		return SV{T: ev.view.Heap(hn, ty.Sort), Ty: ty}
	}
	if name == "alloc" {
		return SV{T: ev.view.AllocTerm(), Ty: &SType{Sort: SInt}}
	}
	if ev.pkg != nil {
		if v, ok := ev.pkgObject(ev.pkg, name); ok {
			return v
		}
	}
	sfail("unknown identifier %q", name)
	return SV{}
}

// fieldPath reads the field reached by the index path starting from value v.
func (ev *Eval) selectField(v SV, name string) SV {
	if v.Ty == nil || v.Ty.Go == nil {
		sfail("selector .%s on a ghost value", name)
	}
	obj, index, _ := types.LookupFieldOrMethod(v.Ty.Go, true, ev.pkg, name)
	fld, ok := obj.(*types.Var)
	if !ok || fld == nil {
		sfail("type %s has no field %s", v.Ty.Go, name)
	}
	cur := v
	for _, idx := range index {
		t := cur.Ty.Go
		if p, ok := under(t).(*types.Pointer); ok {
			st := p.Elem()
			si := ev.c.StructOf(st)
			hn, hs := ev.c.FieldHeap(st, idx)
			cur = SV{T: Select(ev.view.Heap(hn, hs), cur.T), Ty: goTy(ev.c, si.Fields[idx].Go)}
			continue
		}
		si := ev.c.StructOf(t)
		cur = SV{T: ev.c.FieldOf(si, cur.T, idx), Ty: goTy(ev.c, si.Fields[idx].Go)}
	}
	return cur
}

func (ev *Eval) toIndex(i SV) T {
	if i.Untyped != nil {
		return bvConstBig(i.Untyped, 64)
	}
	if !isBV(i.T.Sort) {
		sfail("index is not an integer")
	}
	return bvResize(i.T, 64, i.Ty != nil && i.Ty.Go != nil && !isUnsigned(i.Ty.Go))
}

func (ev *Eval) index(x SV, i SV) SV {
	if x.Ty == nil {
		sfail("index into untyped value")
	}
	if x.Ty.Key != nil { // ghost map
		k := ev.concretize(i, x.Ty.Key)
		if k.T.Sort != x.Ty.Key.Sort {
			sfail("ghost map key sort %s, want %s", k.T.Sort, x.Ty.Key.Sort)
		}
		return SV{T: Select(x.T, k.T), Ty: x.Ty.Elem}
	}
	switch t := under(x.Ty.Go).(type) {
	case *types.Array:
		return SV{T: Select(x.T, ev.toIndex(i)), Ty: goTy(ev.c, t.Elem())}
	case *types.Slice:
		es := ev.c.SortOf(t.Elem())
		hn, hs := ev.c.ElemHeap(es)
		arr := Select(ev.view.Heap(hn, hs), SlArr(x.T))
		return SV{T: Select(arr, bvBin("bvadd", SlOff(x.T), ev.toIndex(i))), Ty: goTy(ev.c, t.Elem())}
	case *types.Pointer:
		if a, ok := under(t.Elem()).(*types.Array); ok {
			es := ev.c.SortOf(a.Elem())
			hn, hs := ev.c.ElemHeap(es)
			return SV{T: Select(Select(ev.view.Heap(hn, hs), x.T), ev.toIndex(i)), Ty: goTy(ev.c, a.Elem())}
		}
	}
	sfail("cannot index %s", x.Ty.Go)
	return SV{}
}

func (ev *Eval) binary(op string, a, b SV) SV {
	c := ev.c
	switch op {
	case "&&":
		return SV{T: And(a.T, b.T), Ty: goTy(c, types.Typ[types.Bool])}
	case "||":
		return SV{T: Or(a.T, b.T), Ty: goTy(c, types.Typ[types.Bool])}
	case "==>":
		return SV{T: Implies(a.T, b.T), Ty: goTy(c, types.Typ[types.Bool])}
	case "<==>":
		return SV{T: Eq(a.T, b.T), Ty: goTy(c, types.Typ[types.Bool])}
	}
	boolTy := goTy(c, types.Typ[types.Bool])
	isShift := op == "<<" || op == ">>"
	// both untyped constants
	if a.Untyped != nil && b.Untyped != nil {
		x, y := a.Untyped, b.Untyped
		r := new(big.Int)
		switch op {
		case "+":
			r.Add(x, y)
		case "-":
			r.Sub(x, y)
		case "*":
			r.Mul(x, y)
		case "/":
			r.Quo(x, y)
		case "%":
			r.Rem(x, y)
		case "&":
			r.And(x, y)
		case "|":
			r.Or(x, y)
		case "^":
			r.Xor(x, y)
		case "&^":
			r.AndNot(x, y)
		case "<<":
			r.Lsh(x, uint(y.Int64()))
		case ">>":
			r.Rsh(x, uint(y.Int64()))
		default:
			cmp := x.Cmp(y)
			var res bool
			switch op {
			case "==":
				res = cmp == 0
			case "!=":
				res = cmp != 0
			case "<":
				res = cmp < 0
			case "<=":
				res = cmp <= 0
			case ">":
				res = cmp > 0
			case ">=":
				res = cmp >= 0
			default:
				sfail("operator %s on constants", op)
			}
			if res {
				return SV{T: True, Ty: boolTy}
			}
			return SV{T: False, Ty: boolTy}
		}
		return SV{Untyped: r}
	}
	if isShift {
		a = ev.typed(a)
		w := bvWidth(a.T.Sort)
		if w == 0 {
			sfail("shift of non-integer")
		}
		var cnt T
		guard := True
		if b.Untyped != nil {
			cnt = bvConstBig(b.Untyped, w)
			if b.Untyped.Cmp(big.NewInt(int64(w))) >= 0 {
				cnt = bvConst(uint64(w), w)
			}
		} else {
			bw := bvWidth(b.T.Sort)
			if bw <= w {
				cnt = bvResize(b.T, w, false)
			} else {
				guard = bvCmp("bvult", b.T, bvConst(uint64(w), bw))
				cnt = bvResize(b.T, w, false)
			}
		}
		sop := "bvshl"
		if op == ">>" {
			sop = "bvlshr"
			if a.Ty != nil && a.Ty.Go != nil && !isUnsigned(a.Ty.Go) {
				sop = "bvashr"
			}
		}
		r := bvBin(sop, a.T, cnt)
		if guard.S != "true" {
			over := bvConst(0, w)
			if sop == "bvashr" {
				over = bvBin("bvashr", a.T, bvConst(uint64(w-1), w))
			}
			r = Ite(guard, r, over)
		}
		return SV{T: r, Ty: a.Ty}
	}
	// bring both to one type
	switch {
	case a.Untyped != nil || a.IsNil:
		b = ev.typed(b)
		a = ev.concretize(a, b.Ty)
	case b.Untyped != nil || b.IsNil:
		a = ev.typed(a)
		b = ev.concretize(b, a.Ty)
	}
	if a.T.Sort != b.T.Sort {
		sfail("operator %s: operand sorts differ: %s vs %s (%s , %s)", op, a.T.Sort, b.T.Sort, a.T.S, b.T.S)
	}
	signed := a.Ty != nil && a.Ty.Go != nil && !isUnsigned(a.Ty.Go)
	switch op {
	case "==":
		return SV{T: Eq(a.T, b.T), Ty: boolTy}
	case "!=":
		return SV{T: Not(Eq(a.T, b.T)), Ty: boolTy}
	}
	if a.T.Sort == SStr && op == "+" {
		return SV{T: App("str_cat", SStr, a.T, b.T), Ty: a.Ty}
	}
	if a.T.Sort == SInt {
		switch op {
		case "<", "<=", ">", ">=":
			return SV{T: App(op, SBool, a.T, b.T), Ty: boolTy}
		case "+", "-", "*":
			return SV{T: App(op, SInt, a.T, b.T), Ty: a.Ty}
		}
	}
	if !isBV(a.T.Sort) {
		sfail("operator %s on sort %s", op, a.T.Sort)
	}
	pick := func(s, u string) string {
		if signed {
			return s
		}
		return u
	}
	switch op {
	case "<":
		return SV{T: bvCmp(pick("bvslt", "bvult"), a.T, b.T), Ty: boolTy}
	case "<=":
		return SV{T: bvCmp(pick("bvsle", "bvule"), a.T, b.T), Ty: boolTy}
	case ">":
		return SV{T: bvCmp(pick("bvsgt", "bvugt"), a.T, b.T), Ty: boolTy}
	case ">=":
		return SV{T: bvCmp(pick("bvsge", "bvuge"), a.T, b.T), Ty: boolTy}
	case "+":
		return SV{T: bvBin("bvadd", a.T, b.T), Ty: a.Ty}
	case "-":
		return SV{T: bvBin("bvsub", a.T, b.T), Ty: a.Ty}
	case "*":
		return SV{T: bvBin("bvmul", a.T, b.T), Ty: a.Ty}
	case "/":
		return SV{T: bvBin(pick("bvsdiv", "bvudiv"), a.T, b.T), Ty: a.Ty}
	case "%":
		return SV{T: bvBin(pick("bvsrem", "bvurem"), a.T, b.T), Ty: a.Ty}
	case "&":
		return SV{T: bvBin("bvand", a.T, b.T), Ty: a.Ty}
	case "|":
		return SV{T: bvBin("bvor", a.T, b.T), Ty: a.Ty}
	case "^":
		return SV{T: bvBin("bvxor", a.T, b.T), Ty: a.Ty}
	case "&^":
		return SV{T: bvBin("bvand", a.T, App("bvnot", b.T.Sort, b.T)), Ty: a.Ty}
	}
	sfail("unknown operator %s", op)
	return SV{}
}

func (ev *Eval) convert(ty *SType, v SV) SV {
	if v.Untyped != nil || v.IsNil {
		return ev.concretize(v, ty)
	}
	if isBV(ty.Sort) && isBV(v.T.Sort) {
		signed := v.Ty != nil && v.Ty.Go != nil && !isUnsigned(v.Ty.Go)
		return SV{T: bvResize(v.T, bvWidth(ty.Sort), signed), Ty: ty}
	}
	if ty.Sort == v.T.Sort {
		return SV{T: v.T, Ty: ty}
	}
	sfail("cannot convert sort %s to %s", v.T.Sort, ty.Sort)
	return SV{}
}

func (ev *Eval) eval(e Expr) SV {
	c := ev.c
	boolTy := goTy(c, types.Typ[types.Bool])
	switch x := e.(type) {
	case *EInt:
		return SV{Untyped: x.V}
	case *EBool:
		if x.V {
			return SV{T: True, Ty: boolTy}
		}
		return SV{T: False, Ty: boolTy}
	case *ENil:
		return SV{IsNil: true}
	case *EStr:
		return SV{T: c.StrConst(x.V), Ty: goTy(c, types.Typ[types.String])}
	case *EIdent:
		return ev.ident(x.Name)
	case *EOld:
		if ev.old == nil {
			sfail("old() is not available here")
		}
		o := *ev.old
		// bound variables introduced since are visible inside old()
		o.vars = map[string]SV{}
		for k, v := range ev.old.vars {
			o.vars[k] = v
		}
		for k, v := range ev.vars {
			if _, ok := o.vars[k]; !ok {
				o.vars[k] = v
			}
		}
		return o.eval(x.X)
	case *EUnary:
		v := ev.eval(x.X)
		switch x.Op {
		case "!":
			return SV{T: Not(v.T), Ty: boolTy}
		case "-":
			if v.Untyped != nil {
				return SV{Untyped: new(big.Int).Neg(v.Untyped)}
			}
			return SV{T: App("bvneg", v.T.Sort, v.T), Ty: v.Ty}
		case "^":
			if v.Untyped != nil {
				return SV{Untyped: new(big.Int).Not(v.Untyped)}
			}
			return SV{T: App("bvnot", v.T.Sort, v.T), Ty: v.Ty}
		}
	case *EBinary:
		a := ev.eval(x.X)
		b := ev.eval(x.Y)
		return ev.binary(x.Op, a, b)
	case *ESel:
		if id, ok := x.X.(*EIdent); ok {
			if _, isVar := ev.vars[id.Name]; !isVar {
				isLocal := false
				if ev.locals != nil {
					_, isLocal = ev.locals(id.Name)
				}
				if !isLocal {
					if p := ev.lookupPkg(id.Name); p != nil && p != ev.pkg {
						if v, ok := ev.pkgObject(p, x.Name); ok {
							return v
						}
						sfail("unknown object %s.%s", id.Name, x.Name)
					}
				}
			}
		}
		return ev.selectField(ev.typed(ev.eval(x.X)), x.Name)
	case *EIndex:
		return ev.index(ev.eval(x.X), ev.eval(x.I))
	case *ECompLit:
		ty := ev.resolveType(x.Type)
		return SV{T: c.ZeroOfSort(ty.Sort), Ty: ty}
	case *EQuant:
		n := ev.child()
		var binders []string
		for _, qv := range x.Vars {
			ty := n.resolveType(qv.Type)
			*n.bound++
			name := fmt.Sprintf("%s!q%d", qv.Name, *n.bound)
			n.vars[qv.Name] = SV{T: T{name, ty.Sort}, Ty: ty}
			binders = append(binders, fmt.Sprintf("(%s %s)", name, ty.Sort))
		}
		body := n.Bool(x.Body)
		q := "forall"
		if !x.Forall {
			q = "exists"
		}
		bs := body.S
		if x.Forall {
			// explicit trigger: when every bound variable is the bare index of some read in the body
			// ((select X v)), the smallest such read per variable is the pattern. Contracts are written over
			// absolute positions for exactly this purpose; left to themselves the solvers often pick none.
			var names []string
			for _, qv := range x.Vars {
				names = append(names, n.vars[qv.Name].T.S)
			}
			if pats := barePatterns(bs, names); len(pats) > 0 {
				bs = "(! " + bs
				for _, p := range pats {
					bs += " :pattern (" + p + ")"
				}
				bs += ")"
			}
		}
		return SV{T: T{fmt.Sprintf("(%s (%s) %s)", q, strings.Join(binders, " "), bs), SBool}, Ty: boolTy}
	case *ECall:
		return ev.call(x)
	case *ESlice:
		sfail("slice expressions are not supported in contracts; use index arithmetic")
	}
	sfail("unsupported expression %T", e)
	return SV{}
}

func (ev *Eval) call(x *ECall) SV {
	c := ev.c
	boolTy := goTy(c, types.Typ[types.Bool])
	if ty, ok := ev.isTypeName(x.Fun); ok {
		if len(x.Args) != 1 {
			sfail("conversion takes one argument")
		}
		return ev.convert(ty, ev.eval(x.Args[0]))
	}
	id, ok := x.Fun.(*EIdent)
	if !ok {
		sfail("cannot call %T in a contract", x.Fun)
	}
	switch id.Name {
	case "len", "cap":
		v := ev.typed(ev.eval(x.Args[0]))
		intTy := goTy(c, tyInt)
		switch t := under(v.Ty.Go).(type) {
		case *types.Slice:
			if id.Name == "len" {
				return SV{T: SlLen(v.T), Ty: intTy}
			}
			return SV{T: SlCap(v.T), Ty: intTy}
		case *types.Array:
			return SV{Untyped: big.NewInt(t.Len())}
		case *types.Basic:
			if t.Info()&types.IsString != 0 {
				return SV{T: App("str_len", BV(64), v.T), Ty: intTy}
			}
		}
		sfail("len of %s", v.Ty.Go)
	case "ite":
		cnd := ev.Bool(x.Args[0])
		a, b := ev.eval(x.Args[1]), ev.eval(x.Args[2])
		switch {
		case a.Untyped != nil && b.Untyped != nil:
			a, b = ev.typed(a), ev.typed(b)
		case a.Untyped != nil || a.IsNil:
			a = ev.concretize(a, b.Ty)
		case b.Untyped != nil || b.IsNil:
			b = ev.concretize(b, a.Ty)
		}
		return SV{T: Ite(cnd, a.T, b.T), Ty: a.Ty}
	case "unchanged":
		if ev.unchanged == nil {
			sfail("unchanged() is only meaningful in a postcondition")
		}
		return SV{T: ev.unchanged(), Ty: boolTy}
	case "fresh":
		// fresh(x): x was allocated during the call (reference not below the old allocation counter)
		if ev.old == nil {
			sfail("fresh() needs a pre-state")
		}
		v := ev.typed(ev.eval(x.Args[0]))
		ref := v.T
		if v.T.Sort == SSlice {
			ref = SlArr(v.T)
		}
		return SV{T: App(">=", SBool, ref, ev.old.view.AllocTerm()), Ty: boolTy}
	case "allocated":
		v := ev.typed(ev.eval(x.Args[0]))
		ref := v.T
		if v.T.Sort == SSlice {
			ref = SlArr(v.T)
		}
		return SV{T: And(App("<", SBool, Nil, ref), App("<", SBool, ref, ev.view.AllocTerm())), Ty: boolTy}
	case "arr":
		// arr(s): identity of the backing array of slice s
		v := ev.typed(ev.eval(x.Args[0]))
		return SV{T: SlArr(v.T), Ty: &SType{Sort: SInt}}
	case "off":
		v := ev.typed(ev.eval(x.Args[0]))
		return SV{T: SlOff(v.T), Ty: goTy(c, tyInt)}
	case "contents":
		// contents(s): the whole backing array of s as a mem value
		v := ev.typed(ev.eval(x.Args[0]))
		sl, ok := under(v.Ty.Go).(*types.Slice)
		if !ok {
			sfail("contents() of non-slice")
		}
		es := c.SortOf(sl.Elem())
		hn, hs := c.ElemHeap(es)
		return SV{T: Select(ev.view.Heap(hn, hs), SlArr(v.T)), Ty: &SType{Key: goTy(c, tyInt), Elem: goTy(c, sl.Elem()), Sort: ArraySort(BV(64), es)}}
	case "update":
		// update(m, k, v): functional update of a ghost map
		m := ev.eval(x.Args[0])
		if m.Ty == nil || m.Ty.Key == nil {
			sfail("update() of non-map")
		}
		k := ev.concretize(ev.eval(x.Args[1]), m.Ty.Key)
		v := ev.concretize(ev.eval(x.Args[2]), m.Ty.Elem)
		return SV{T: Store(m.T, k.T, v.T), Ty: m.Ty}
	case "haskey", "mapval":
		// haskey(m, k), mapval(m, k): membership and stored value of a Go map
		m := ev.typed(ev.eval(x.Args[0]))
		mt, ok := under(m.Ty.Go).(*types.Map)
		if !ok {
			sfail("%s() of a non-map", id.Name)
		}
		k := ev.concretize(ev.eval(x.Args[1]), goTy(c, mt.Key()))
		ks := c.SortOf(mt.Key())
		es := c.SortOf(mt.Elem())
		name := sanitize(ks) + "_" + sanitize(es)
		if id.Name == "haskey" {
			ds := ArraySort(SInt, ArraySort(ks, SBool))
			c.declHeap("MD_"+name, ds)
			return SV{T: Select(Select(ev.view.Heap("MD_"+name, ds), m.T), k.T), Ty: boolTy}
		}
		vs := ArraySort(SInt, ArraySort(ks, es))
		c.declHeap("MV_"+name, vs)
		return SV{T: Select(Select(ev.view.Heap("MV_"+name, vs), m.T), k.T), Ty: goTy(c, mt.Elem())}
	case "ref":
		// ref(x): the reference identity of a pointer/interface value
		v := ev.typed(ev.eval(x.Args[0]))
		if v.T.Sort != SInt {
			sfail("ref() of non-reference")
		}
		return SV{T: v.T, Ty: &SType{Sort: SInt, Go: types.Typ[types.UnsafePointer]}}
	case "ipa":
		// ipa(p, k): address of the k-th field of object p (used as identity of embedded mutexes etc.)
		v := ev.typed(ev.eval(x.Args[0]))
		k := ev.eval(x.Args[1])
		if k.Untyped == nil {
			sfail("ipa field index must be constant")
		}
		return SV{T: App("ipa", SInt, v.T, intConst(k.Untyped.Int64())), Ty: &SType{Sort: SInt, Go: types.Typ[types.UnsafePointer]}}
	case "fieldaddr":
		// fieldaddr(p, name): address of field `name` of the struct p points to
		v := ev.typed(ev.eval(x.Args[0]))
		fid, ok := x.Args[1].(*EIdent)
		if !ok {
			sfail("fieldaddr(p, fieldname)")
		}
		pt, ok := under(v.Ty.Go).(*types.Pointer)
		if !ok {
			sfail("fieldaddr of non-pointer")
		}
		st := under(pt.Elem()).(*types.Struct)
		for i := 0; i < st.NumFields(); i++ {
			if st.Field(i).Name() == fid.Name {
				return SV{T: App("ipa", SInt, v.T, intConst(int64(i))), Ty: &SType{Sort: SInt, Go: types.Typ[types.UnsafePointer]}}
			}
		}
		sfail("no field %s", fid.Name)
	}
	if sf, ok := c.Specs.SpecFuncs[id.Name]; ok {
		if len(sf.Params) != len(x.Args) {
			sfail("spec func %s takes %d arguments", sf.Name, len(sf.Params))
		}
		n := ev.child()
		if p, ok := c.TPkgs[sf.PkgPath]; ok {
			n.pkg = p
		}
		n.locals = nil
		// spec function bodies see only their parameters (and ghost/global state of the current view)
		n.vars = map[string]SV{}
		for i, p := range sf.Params {
			ty := n.resolveType(p.Type)
			a := ev.eval(x.Args[i])
			a = ev.concretize(a, ty)
			if a.T.Sort != ty.Sort {
				sfail("spec func %s: argument %s has sort %s, want %s", sf.Name, p.Name, a.T.Sort, ty.Sort)
			}
			n.vars[p.Name] = SV{T: a.T, Ty: ty}
		}
		rt := n.resolveType(sf.Result)
		if sf.Body == nil {
			// uninterpreted function
			var sorts []string
			var as []T
			for _, p := range sf.Params {
				v := n.vars[p.Name]
				sorts = append(sorts, v.T.Sort)
				as = append(as, v.T)
			}
			c.Decl("uf:"+sf.Name, fmt.Sprintf("(declare-fun uf_%s (%s) %s)", sf.Name, strings.Join(sorts, " "), rt.Sort))
			if len(as) == 0 {
				return SV{T: T{"uf_" + sf.Name, rt.Sort}, Ty: rt}
			}
			return SV{T: App("uf_"+sf.Name, rt.Sort, as...), Ty: rt}
		}
		if sf.Opaque {
			od := c.opaqueDef(sf, n)
			var as []T
			for _, p := range sf.Params {
				as = append(as, n.vars[p.Name].T)
			}
			for _, h := range od.heaps {
				as = append(as, ev.view.Heap(h.name, h.sort))
			}
			if od.usesAlloc {
				as = append(as, ev.view.AllocTerm())
			}
			return SV{T: App("sf_"+sf.Name, rt.Sort, as...), Ty: rt}
		}
		r := n.eval(sf.Body)
		r = n.concretize(r, rt)
		if r.T.Sort != rt.Sort {
			sfail("spec func %s: body has sort %s, declared %s", sf.Name, r.T.Sort, rt.Sort)
		}
		return SV{T: r.T, Ty: rt}
	}
	sfail("unknown function %q in contract", id.Name)
	return SV{}
}

// ---- opaque spec functions -------------------------------------------------------------------------------
//
// An opaque spec function is not inlined. Its applications stay calls of a declared SMT function whose arguments
// are the parameters followed by every heap (and the allocation counter) its body reads; the definition is an
// axiom with the application as trigger, added only to queries that mention the function. A big invariant that a
// callee's postcondition hands back on syntactically the same heaps is then closed without unfolding.

type opaqueHeap struct{ name, sort string }

type opaqueInfo struct {
	heaps     []opaqueHeap
	usesAlloc bool
	decl      string // declare-fun
	axiom     string // definitional axiom
}

// recView records which heaps a spec function body reads and hands out bound variables for them.
type recView struct {
	order     []opaqueHeap
	seen      map[string]bool
	usesAlloc bool
}

func (r *recView) Heap(name, sort string) T {
	if !r.seen[name] {
		r.seen[name] = true
		r.order = append(r.order, opaqueHeap{name, sort})
	}
	return T{"H!" + name, sort}
}
func (r *recView) AllocTerm() T { r.usesAlloc = true; return T{"H!alloc", SInt} }

func (c *Ctx) opaqueDef(sf *SpecFunc, at *Eval) *opaqueInfo {
	if c.opaque == nil {
		c.opaque = map[string]*opaqueInfo{}
	}
	if od, ok := c.opaque[sf.Name]; ok {
		if od == nil {
			sfail("opaque spec func %s is recursive", sf.Name)
		}
		return od
	}
	c.opaque[sf.Name] = nil
	rv := &recView{seen: map[string]bool{}}
	n := &Eval{c: c, pkg: at.pkg, vars: map[string]SV{}, view: rv, bound: at.bound, ex: at.ex}
	if p, ok := c.TPkgs[sf.PkgPath]; ok {
		n.pkg = p
	}
	var binders, args []string
	for _, p := range sf.Params {
		ty := n.resolveType(p.Type)
		v := T{"a!" + p.Name, ty.Sort}
		n.vars[p.Name] = SV{T: v, Ty: ty}
		binders = append(binders, fmt.Sprintf("(%s %s)", v.S, ty.Sort))
		args = append(args, v.S)
	}
	rt := n.resolveType(sf.Result)
	body := n.concretize(n.eval(sf.Body), rt)
	if body.T.Sort != rt.Sort {
		sfail("spec func %s: body has sort %s, declared %s", sf.Name, body.T.Sort, rt.Sort)
	}
	// heaps in a fixed order (by name), so that every application lists them the same way
	hs := append([]opaqueHeap(nil), rv.order...)
	sort.Slice(hs, func(i, j int) bool { return hs[i].name < hs[j].name })
	od := &opaqueInfo{heaps: hs, usesAlloc: rv.usesAlloc}
	var sorts []string
	for _, p := range sf.Params {
		sorts = append(sorts, n.vars[p.Name].T.Sort)
	}
	for _, h := range hs {
		binders = append(binders, fmt.Sprintf("(H!%s %s)", h.name, h.sort))
		args = append(args, "H!"+h.name)
		sorts = append(sorts, h.sort)
	}
	if rv.usesAlloc {
		binders = append(binders, "(H!alloc Int)")
		args = append(args, "H!alloc")
		sorts = append(sorts, SInt)
	}
	app := "sf_" + sf.Name
	if len(args) > 0 {
		app = "(sf_" + sf.Name + " " + strings.Join(args, " ") + ")"
	}
	od.decl = fmt.Sprintf("(declare-fun sf_%s (%s) %s)", sf.Name, strings.Join(sorts, " "), rt.Sort)
	if len(binders) == 0 {
		od.axiom = fmt.Sprintf("(assert (= %s %s))\n", app, body.T.S)
	} else {
		od.axiom = fmt.Sprintf("(assert (forall (%s) (! (= %s %s) :pattern (%s))))\n", strings.Join(binders, " "), app, body.T.S, app)
	}
	c.opaque[sf.Name] = od
	c.Decl("sf:"+sf.Name, od.decl)
	return od
}

// barePatterns returns alternative triggers for a quantifier body: reads "(select X v)" in which a bound variable v
// is exactly the index and X mentions no bound variable. With one bound variable every such read (up to eight,
// smallest first) is an alternative pattern; with several, one multi-pattern made of the smallest read per variable.
// nil if some variable has no such read (the solver then chooses its own triggers).
func barePatterns(body string, vars []string) []string {
	per := map[string][]string{}
	// an explicit trigger written by the contract author: an application of the uninterpreted marker trig(v)
	if len(vars) == 1 && strings.Contains(body, "(uf_trig "+vars[0]+")") {
		return []string{"(uf_trig " + vars[0] + ")"}
	}
	for _, v := range vars {
		seen := map[string]bool{}
		suffix := " " + v + ")"
		for from := 0; ; {
			k := strings.Index(body[from:], suffix)
			if k < 0 {
				break
			}
			end := from + k + len(suffix)
			from = from + k + 1
			depth := 0
			start := -1
			for i := end - 1; i >= 0; i-- {
				if body[i] == ')' {
					depth++
				} else if body[i] == '(' {
					depth--
					if depth == 0 {
						start = i
						break
					}
				}
			}
			if start < 0 || !strings.HasPrefix(body[start:], "(select ") {
				continue
			}
			term := body[start:end]
			inner := term[len("(select ") : len(term)-len(suffix)]
			ok := true
			for _, w := range vars {
				if strings.Contains(inner, w+" ") || strings.Contains(inner, w+")") || strings.HasSuffix(inner, w) {
					ok = false
				}
			}
			if ok && !seen[term] && !strings.Contains(term, "(ite ") {
				// (z3 refuses patterns that contain if-then-else)
				seen[term] = true
				per[v] = append(per[v], term)
			}
		}
		if len(per[v]) == 0 {
			return nil
		}
		sort.SliceStable(per[v], func(i, j int) bool { return len(per[v][i]) < len(per[v][j]) })
	}
	if len(vars) == 1 {
		ps := per[vars[0]]
		if len(ps) > 8 {
			ps = ps[:8]
		}
		return ps
	}
	var multi []string
	for _, v := range vars {
		multi = append(multi, per[v][0])
	}
	return []string{strings.Join(multi, " ")}
}
