package main

// SMT term construction. Terms are S-expression strings tagged with their sort.
// All Go integers are fixed-width bit-vectors; references (pointers, interfaces,
// maps, funcs, errors) are mathematical Ints with 0 == nil.

import (
	"fmt"
	"math/big"
	"strings"
)

type T struct {
	S    string
	Sort string
}

const (
	SBool  = "Bool"
	SInt   = "Int"
	SSlice = "Slice"
	SStr   = "Str"
	SFloat = "Flt"
)

var (
	True  = T{"true", SBool}
	False = T{"false", SBool}
	Nil   = T{"0", SInt}
)

func BV(n int) string { return fmt.Sprintf("(_ BitVec %d)", n) }

func bvWidth(sort string) int {
	var n int
	if _, err := fmt.Sscanf(sort, "(_ BitVec %d)", &n); err != nil {
		return 0
	}
	return n
}

func isBV(sort string) bool { return strings.HasPrefix(sort, "(_ BitVec ") }

func bvConstBig(v *big.Int, n int) T {
	m := new(big.Int).Lsh(big.NewInt(1), uint(n))
	x := new(big.Int).Mod(v, m)
	if x.Sign() < 0 {
		x.Add(x, m)
	}
	if n%4 == 0 {
		s := x.Text(16)
		for len(s) < n/4 {
			s = "0" + s
		}
		return T{"#x" + s, BV(n)}
	}
	return T{fmt.Sprintf("(_ bv%s %d)", x.String(), n), BV(n)}
}

func bvConst(v uint64, n int) T { return bvConstBig(new(big.Int).SetUint64(v), n) }
func bvConstI(v int64, n int) T { return bvConstBig(big.NewInt(v), n) }

func intConst(v int64) T {
	if v < 0 {
		return T{fmt.Sprintf("(- %d)", -v), SInt}
	}
	return T{fmt.Sprintf("%d", v), SInt}
}

// constant value of a literal bit-vector term, if it is one
func bvLit(t T) (*big.Int, bool) {
	if strings.HasPrefix(t.S, "#x") {
		v, ok := new(big.Int).SetString(t.S[2:], 16)
		return v, ok
	}
	if strings.HasPrefix(t.S, "(_ bv") {
		f := strings.Fields(t.S[5:])
		v, ok := new(big.Int).SetString(f[0], 10)
		return v, ok
	}
	return nil, false
}

func App(op, sort string, args ...T) T {
	var b strings.Builder
	b.WriteByte('(')
	b.WriteString(op)
	for _, a := range args {
		b.WriteByte(' ')
		b.WriteString(a.S)
	}
	b.WriteByte(')')
	return T{b.String(), sort}
}

func Not(a T) T {
	switch a.S {
	case "true":
		return False
	case "false":
		return True
	}
	if strings.HasPrefix(a.S, "(not ") {
		return T{a.S[5 : len(a.S)-1], SBool}
	}
	return App("not", SBool, a)
}

func And(ts ...T) T {
	var keep []T
	for _, t := range ts {
		if t.S == "true" {
			continue
		}
		if t.S == "false" {
			return False
		}
		if strings.HasPrefix(t.S, "(and ") {
			for _, p := range splitSexp(t.S)[1:] {
				keep = append(keep, T{p, SBool})
			}
			continue
		}
		keep = append(keep, t)
	}
	if len(keep) == 0 {
		return True
	}
	if len(keep) == 1 {
		return keep[0]
	}
	return App("and", SBool, keep...)
}

func Or(ts ...T) T {
	var keep []T
	for _, t := range ts {
		if t.S == "false" {
			continue
		}
		if t.S == "true" {
			return True
		}
		keep = append(keep, t)
	}
	if len(keep) == 0 {
		return False
	}
	if len(keep) == 1 {
		return keep[0]
	}
	return App("or", SBool, keep...)
}

func Implies(a, b T) T {
	if a.S == "true" {
		return b
	}
	if a.S == "false" || b.S == "true" {
		return True
	}
	return App("=>", SBool, a, b)
}

func isIntLit(s string) bool {
	if s == "" {
		return false
	}
	for _, c := range s {
		if c < '0' || c > '9' {
			return false
		}
	}
	return true
}

func Eq(a, b T) T {
	if a.Sort != b.Sort {
		panic(fmt.Sprintf("Eq: sort mismatch %s : %s  vs  %s : %s", a.S, a.Sort, b.S, b.Sort))
	}
	if a.S == b.S {
		return True
	}
	if a.Sort == SBool {
		if b.S == "true" {
			return a
		}
		if b.S == "false" {
			return Not(a)
		}
		if a.S == "true" {
			return b
		}
		if a.S == "false" {
			return Not(b)
		}
	}
	if isIntLit(a.S) && isIntLit(b.S) {
		return False
	}
	if av, ok := bvLit(a); ok {
		if bv, ok2 := bvLit(b); ok2 {
			if av.Cmp(bv) == 0 {
				return True
			}
			return False
		}
	}
	return App("=", SBool, a, b)
}

func Ite(c, a, b T) T {
	if a.Sort != b.Sort {
		panic(fmt.Sprintf("Ite: sort mismatch %s vs %s", a.Sort, b.Sort))
	}
	if c.S == "true" {
		return a
	}
	if c.S == "false" {
		return b
	}
	if a.S == b.S {
		return a
	}
	return App("ite", a.Sort, c, a, b)
}

func ArraySort(idx, elem string) string { return "(Array " + idx + " " + elem + ")" }

// splitSexp splits the top-level items of "(a b (c d))" -> ["a","b","(c d)"].
func splitSexp(s string) []string {
	s = strings.TrimSpace(s)
	if !strings.HasPrefix(s, "(") {
		return []string{s}
	}
	s = s[1 : len(s)-1]
	var out []string
	depth := 0
	start := -1
	for i, c := range s {
		switch {
		case c == '(':
			if depth == 0 && start < 0 {
				start = i
			}
			depth++
		case c == ')':
			depth--
			if depth == 0 {
				out = append(out, s[start:i+1])
				start = -1
			}
		case c == ' ' || c == '\n' || c == '\t':
			if depth == 0 && start >= 0 {
				out = append(out, s[start:i])
				start = -1
			}
		default:
			if start < 0 {
				start = i
			}
		}
	}
	if start >= 0 {
		out = append(out, s[start:])
	}
	return out
}

func arrayParts(sort string) (idx, elem string, ok bool) {
	if !strings.HasPrefix(sort, "(Array ") {
		return "", "", false
	}
	p := splitSexp(sort)
	if len(p) != 3 {
		return "", "", false
	}
	return p[1], p[2], true
}

func Select(a, i T) T {
	idx, elem, ok := arrayParts(a.Sort)
	if !ok {
		panic("Select on non-array " + a.Sort + " : " + a.S)
	}
	if idx != i.Sort {
		panic(fmt.Sprintf("Select: index sort %s, want %s (array %s)", i.Sort, idx, a.S))
	}
	// select over store with syntactically equal index
	if strings.HasPrefix(a.S, "(store ") {
		p := splitSexp(a.S)
		if len(p) == 4 && p[2] == i.S {
			return T{p[3], elem}
		}
	}
	return App("select", elem, a, i)
}

func Store(a, i, v T) T {
	idx, elem, ok := arrayParts(a.Sort)
	if !ok {
		panic("Store on non-array " + a.Sort)
	}
	if idx != i.Sort || elem != v.Sort {
		panic(fmt.Sprintf("Store: sorts idx %s/%s elem %s/%s", i.Sort, idx, v.Sort, elem))
	}
	return App("store", a.Sort, a, i, v)
}

func ConstArray(sort string, v T) T {
	return T{fmt.Sprintf("((as const %s) %s)", sort, v.S), sort}
}

// ---- slices -------------------------------------------------------------------------------

func MkSlice(arr, off, ln, cp T) T {
	return App("mk_slice", SSlice, arr, off, ln, cp)
}

func slicePart(s T, which int) T {
	names := []string{"sl_arr", "sl_off", "sl_len", "sl_cap"}
	sorts := []string{SInt, BV(64), BV(64), BV(64)}
	if strings.HasPrefix(s.S, "(mk_slice ") {
		p := splitSexp(s.S)
		if len(p) == 5 {
			return T{p[1+which], sorts[which]}
		}
	}
	return App(names[which], sorts[which], s)
}

func SlArr(s T) T { return slicePart(s, 0) }
func SlOff(s T) T { return slicePart(s, 1) }
func SlLen(s T) T { return slicePart(s, 2) }
func SlCap(s T) T { return slicePart(s, 3) }

var NilSlice = T{"(mk_slice 0 #x0000000000000000 #x0000000000000000 #x0000000000000000)", SSlice}

// ---- bit-vector helpers -------------------------------------------------------------------

func bvBin(op string, a, b T) T {
	if a.Sort != b.Sort {
		panic(fmt.Sprintf("bvBin %s: sort mismatch %s:%s vs %s:%s", op, a.S, a.Sort, b.S, b.Sort))
	}
	return App(op, a.Sort, a, b)
}

func bvCmp(op string, a, b T) T {
	if a.Sort != b.Sort {
		panic(fmt.Sprintf("bvCmp %s: sort mismatch %s:%s vs %s:%s", op, a.S, a.Sort, b.S, b.Sort))
	}
	if av, ok := bvLit(a); ok {
		if bv, ok2 := bvLit(b); ok2 {
			n := bvWidth(a.Sort)
			sgn := func(x *big.Int) *big.Int {
				if x.Bit(n-1) == 1 {
					return new(big.Int).Sub(x, new(big.Int).Lsh(big.NewInt(1), uint(n)))
				}
				return x
			}
			var c int
			if strings.HasPrefix(op, "bvs") {
				c = sgn(av).Cmp(sgn(bv))
			} else {
				c = av.Cmp(bv)
			}
			var r bool
			switch op[3:] {
			case "lt":
				r = c < 0
			case "le":
				r = c <= 0
			case "gt":
				r = c > 0
			case "ge":
				r = c >= 0
			}
			if r {
				return True
			}
			return False
		}
	}
	return App(op, SBool, a, b)
}

// resize converts a bit-vector to width n; signed selects sign extension.
func bvResize(a T, n int, signed bool) T {
	w := bvWidth(a.Sort)
	if w == 0 {
		panic("bvResize on " + a.Sort + " " + a.S)
	}
	if v, ok := bvLit(a); ok {
		if signed && v.Bit(w-1) == 1 {
			v = new(big.Int).Sub(v, new(big.Int).Lsh(big.NewInt(1), uint(w)))
		}
		return bvConstBig(v, n)
	}
	switch {
	case w == n:
		return a
	case w > n:
		return T{fmt.Sprintf("((_ extract %d 0) %s)", n-1, a.S), BV(n)}
	case signed:
		return T{fmt.Sprintf("((_ sign_extend %d) %s)", n-w, a.S), BV(n)}
	default:
		return T{fmt.Sprintf("((_ zero_extend %d) %s)", n-w, a.S), BV(n)}
	}
}

func sanitize(s string) string {
	var b strings.Builder
	for _, c := range s {
		switch {
		case c >= 'a' && c <= 'z', c >= 'A' && c <= 'Z', c >= '0' && c <= '9', c == '_':
			b.WriteRune(c)
		case c == '.' || c == '/':
			b.WriteByte('_')
		case c == '*':
			b.WriteString("P")
		case c == '$':
			b.WriteString("S")
		default:
			b.WriteString("_")
		}
	}
	return b.String()
}
