package main

// Solver portfolio: every obligation is one SMT-LIB query; solvers are tried in stages.

import (
	"bytes"
	"context"
	"crypto/sha256"
	"encoding/hex"
	"fmt"
	"os"
	"os/exec"
	"path/filepath"
	"strings"
	"sync"
	"sync/atomic"
	"time"
)

var fileSeq int64

type SolverCfg struct {
	Name     string
	Cmd      func(file string, timeoutS int) []string
	TrustSat bool
}

// Order: the E-matching configuration answers (unsat or unknown) within a fraction of a second on
// quantified goals; cvc5 decides some of the rest; the model-based configurations come last because
// they are the ones that can produce counterexamples but may also run into the timeout.
var solvers = []SolverCfg{
	{"z3-5.1-ematch", func(f string, t int) []string {
		return []string{"z3-new", fmt.Sprintf("-T:%d", t), "smt.auto_config=false", "smt.mbqi=false", f}
	}, false},
	{"z3-5.1", func(f string, t int) []string { return []string{"z3-new", fmt.Sprintf("-T:%d", t), f} }, true},
	{"cvc5-1.0", func(f string, t int) []string {
		return []string{"cvc5", fmt.Sprintf("--tlimit=%d", t*1000), f}
	}, true},
	{"z3-4.8", func(f string, t int) []string { return []string{"z3", fmt.Sprintf("-T:%d", t), f} }, true},
}

type SolveResult struct {
	Status  string // unsat, sat, unknown
	Solver  string
	Seconds float64
	Model   string
	Output  string
	Cached  bool
	Tried   []string
}

type Solver struct {
	WorkDir     string
	CacheDir    string
	Timeout     int // seconds per solver call
	Seed        int
	NoCache     bool
	RetryFactor int // >1: paths undecided within Timeout are retried once with Timeout*RetryFactor
	mu          sync.Mutex
	Wins        map[string]int
	SolverS     map[string]float64
	Calls       int
	Hits        int
}

func NewSolver(work, cache string, timeout int, seed int) *Solver {
	os.MkdirAll(work, 0755)
	if cache != "" {
		os.MkdirAll(cache, 0755)
	}
	return &Solver{WorkDir: work, CacheDir: cache, Timeout: timeout, Seed: seed, Wins: map[string]int{}, SolverS: map[string]float64{}, NoCache: os.Getenv("VERIF_NOCACHE") != ""}
}

func runCmd(argv []string, timeout time.Duration) (string, error) {
	return runCmdCtx(context.Background(), argv, timeout)
}

func runCmdCtx(parent context.Context, argv []string, timeout time.Duration) (string, error) {
	ctx, cancel := context.WithTimeout(parent, timeout)
	defer cancel()
	cmd := exec.CommandContext(ctx, argv[0], argv[1:]...)
	var out bytes.Buffer
	cmd.Stdout = &out
	cmd.Stderr = &out
	err := cmd.Run()
	return out.String(), err
}

func firstWord(out string) string {
	for _, l := range strings.Split(out, "\n") {
		l = strings.TrimSpace(l)
		if l == "" || strings.HasPrefix(l, ";") || strings.HasPrefix(l, "WARNING") {
			continue
		}
		return l
	}
	return ""
}

// Solve decides one query (without check-sat; it is appended here).
func (s *Solver) Solve(name string, query string, wantModel bool) SolveResult {
	sum := sha256.Sum256([]byte(query))
	key := hex.EncodeToString(sum[:])
	if s.CacheDir != "" && !s.NoCache {
		if b, err := os.ReadFile(filepath.Join(s.CacheDir, key)); err == nil {
			parts := strings.SplitN(string(b), "\n", 3)
			if len(parts) >= 2 && (parts[0] == "unsat" || parts[0] == "sat") {
				s.mu.Lock()
				s.Hits++
				s.mu.Unlock()
				r := SolveResult{Status: parts[0], Solver: parts[1], Cached: true}
				if len(parts) == 3 {
					r.Model = parts[2]
				}
				return r
			}
		}
	}
	// identical queries can be in flight on two workers: the scratch file name must be unique per call
	file := filepath.Join(s.WorkDir, fmt.Sprintf("%s-%d.smt2", key[:24], atomic.AddInt64(&fileSeq, 1)))
	seedOpt := ""
	_ = seedOpt
	body := query + "(check-sat)\n"
	if err := os.WriteFile(file, []byte(body), 0644); err != nil {
		return SolveResult{Status: "unknown", Output: err.Error()}
	}
	defer os.Remove(file)
	res := SolveResult{Status: "unknown"}
	tStart := time.Now()
	// The portfolio is raced: all configurations start together, the first definite answer (unsat from
	// anyone, sat from a configuration whose sat is trusted) wins and the others are killed.
	type answer struct {
		sv   SolverCfg
		out  string
		word string
		dt   float64
	}
	ctx, cancel := context.WithCancel(context.Background())
	ch := make(chan answer, len(solvers))
	// The two configurations that decide most obligations within a second (cvc5, z3 with E-matching only) start at
	// once; the other two join the race only if no answer has arrived after 1.5 s. Easy queries then cost two
	// processes instead of four, which matters because all cores are busy with other queries.
	for _, sv := range solvers {
		delay := time.Duration(0)
		if sv.Name != "cvc5-1.0" && sv.Name != "z3-5.1-ematch" {
			delay = 1500 * time.Millisecond
		}
		go func(sv SolverCfg, delay time.Duration) {
			if delay > 0 {
				select {
				case <-ctx.Done():
					ch <- answer{sv, "", "", 0}
					return
				case <-time.After(delay):
				}
			}
			t0 := time.Now()
			out, _ := runCmdCtx(ctx, sv.Cmd(file, s.Timeout), time.Duration(s.Timeout+2)*time.Second)
			ch <- answer{sv, out, firstWord(out), time.Since(t0).Seconds()}
		}(sv, delay)
	}
	var outputs []string
	var satBy *SolverCfg
	for range solvers {
		a := <-ch
		s.mu.Lock()
		s.Calls++
		s.SolverS[a.sv.Name] += a.dt
		s.mu.Unlock()
		if ctx.Err() != nil {
			continue // killed after somebody else answered
		}
		res.Tried = append(res.Tried, fmt.Sprintf("%s:%s:%.2fs", a.sv.Name, a.word, a.dt))
		outputs = append(outputs, a.sv.Name+": "+strings.TrimSpace(a.out))
		if a.word == "unsat" {
			res.Status, res.Solver = "unsat", a.sv.Name
			cancel()
		} else if a.word == "sat" && a.sv.TrustSat {
			res.Status, res.Solver = "sat", a.sv.Name
			sv := a.sv
			satBy = &sv
			cancel()
		}
	}
	cancel()
	if satBy != nil && wantModel {
		mfile := file + ".m.smt2"
		os.WriteFile(mfile, []byte(body+"(get-model)\n"), 0644)
		mout, _ := runCmd(satBy.Cmd(mfile, s.Timeout), time.Duration(s.Timeout+2)*time.Second)
		os.Remove(mfile)
		res.Model = mout
	}
	res.Seconds = time.Since(tStart).Seconds() // all solvers tried, not only the one that answered
	res.Output = strings.Join(outputs, "\n")
	if len(res.Output) > 4000 {
		res.Output = res.Output[:4000]
	}
	s.mu.Lock()
	if res.Solver != "" {
		s.Wins[res.Solver]++
	}
	s.mu.Unlock()
	if s.CacheDir != "" && (res.Status == "unsat" || res.Status == "sat") {
		os.WriteFile(filepath.Join(s.CacheDir, key), []byte(res.Status+"\n"+res.Solver+"\n"+res.Model), 0644)
	}
	return res
}
