package main

// Calls: builtins, inlined closures, and modular calls through contracts.

import (
	"fmt"
	"go/types"
	"regexp"
	"sort"
	"strings"

	"golang.org/x/tools/go/ssa"
)

// contractFor finds the contract of a call target.
func (ex *Exec) contractKeyInvoke(cc *ssa.CallCommon) string {
	t := cc.Value.Type()
	if n, ok := types.Unalias(t).(*types.Named); ok {
		p := ""
		if n.Obj().Pkg() != nil {
			p = n.Obj().Pkg().Path()
		}
		return p + "." + n.Obj().Name() + "." + cc.Method.Name()
	}
	return "?." + cc.Method.Name()
}

func (ex *Exec) call(st *State, fr *Frame, x *ssa.Call) []*State {
	cc := &x.Call
	site := fr.info.callOrd[x]
	var args []Val
	for _, a := range cc.Args {
		args = append(args, ex.get(st, fr, a))
	}
	if cc.IsInvoke() {
		recv := ex.get(st, fr, cc.Value)
		key := ex.contractKeyInvoke(cc)
		res := ex.callByContract(st, fr, key, nil, cc.Signature(), append([]Val{recv}, args...), site, x, true)
		ex.bind(fr, x, res)
		fr.idx++
		return nil
	}
	fv := ex.get(st, fr, cc.Value)
	return ex.callValue(st, fr, fv, cc.Signature(), args, site, x, x, false)
}

func (ex *Exec) bind(fr *Frame, x ssa.Value, res []Val) {
	if x == nil {
		return
	}
	switch len(res) {
	case 0:
	case 1:
		fr.vals[x] = res[0]
	default:
		fr.vals[x] = Tuple(res)
	}
}

func (ex *Exec) callDeferred(st *State, fr *Frame, d *deferred, at *ssa.RunDefers) []*State {
	if d.call.IsInvoke() {
		key := ex.contractKeyInvoke(&d.call)
		ex.callByContract(st, fr, key, nil, d.call.Signature(), append([]Val{d.fn}, d.args...), d.site, at, true)
		return nil
	}
	return ex.callValue(st, fr, d.fn, d.call.Signature(), d.args, d.site, nil, at, true)
}

// callValue calls a function value. retTo receives the results; noAdv: the caller stays on the same instruction.
func (ex *Exec) callValue(st *State, fr *Frame, fv Val, sig *types.Signature, args []Val, site string, retTo ssa.Value, in ssa.Instruction, noAdv bool) []*State {
	adv := func() {
		if !noAdv {
			fr.idx++
		}
	}
	switch f := fv.(type) {
	case *ssa.Builtin:
		// program-point clauses also apply to calls of builtins ("at call append@1: assert|hint|cases ...")
		if in != nil {
			ex.atCallClauses(st, fr, site, site, funcKey(fr.fn), ex.pos(in.Pos()))
		}
		res := ex.builtin(st, fr, f, args, in)
		ex.bind(fr, retTo, res)
		adv()
		return nil
	case *Closure:
		if _, has := ex.c.Specs.Contracts[funcKey(f.Fn)]; has || f.Fn.Blocks == nil {
			// closure with its own contract: modular
		}
		ex.inline(st, fr, f.Fn, f.Bindings, args, retTo, noAdv)
		return nil
	case *FuncRef:
		key := funcKey(f.Fn)
		if ct, ok := ex.c.Specs.Contracts[key]; ok {
			res := ex.applyContract(st, fr, ct, f.Fn, f.Fn.Signature, args, site, in)
			ex.bind(fr, retTo, res)
			adv()
			return nil
		}
		if f.Fn.Synthetic != "" && f.Fn.Blocks != nil && (strings.Contains(f.Fn.Synthetic, "wrapper") || strings.Contains(f.Fn.Synthetic, "thunk")) {
			ex.inline(st, fr, f.Fn, nil, args, retTo, noAdv)
			return nil
		}
		res := ex.callUnknown(st, fr, key, sig, args, site, in)
		ex.bind(fr, retTo, res)
		adv()
		return nil
	case T:
		// dynamic function value: a function-typed parameter with a funcspec, or unknown
		res := ex.callDynamic(st, fr, f, sig, args, site, in)
		ex.bind(fr, retTo, res)
		adv()
		return nil
	}
	ex.unsup("call of %T", fv)
	return nil
}

func (ex *Exec) inline(st *State, fr *Frame, fn *ssa.Function, bindings []Val, args []Val, retTo ssa.Value, noAdv bool) {
	if fn.Blocks == nil {
		ex.unsup("inlining %s: no body", fn.Name())
	}
	if len(st.frames) > 12 {
		ex.unsup("inlining depth exceeded at %s", fn.Name())
	}
	nf := &Frame{fn: fn, info: ex.info(fn), contract: ex.c.Specs.Contracts[funcKey(fn)], vals: map[ssa.Value]Val{}, cells: map[*ssa.Alloc]T{}, active: map[*ssa.BasicBlock]*loopState{}, retTo: retTo, noAdv: noAdv}
	if nf.contract == nil {
		// an inlined literal inherits the tags of the function it is written in
		nf.contract = &Contract{Tags: ex.funcTags(fr.contract), Loops: map[int]*LoopSpec{}, Flags: map[string]bool{}, Asserts: map[string][]*Clause{}}
		if fr.contract != nil {
			nf.contract.Flags = fr.contract.Flags
		}
	}
	for i, p := range fn.Params {
		nf.vals[p] = args[i]
		nf.args = append(nf.args, args[i])
	}
	for i, fv := range fn.FreeVars {
		nf.vals[fv] = bindings[i]
	}
	nf.entry = st.snapshot()
	nf.block = fn.Blocks[0]
	st.frames = append(st.frames, nf)
}

func (ex *Exec) callByContract(st *State, fr *Frame, key string, fn *ssa.Function, sig *types.Signature, args []Val, site string, in ssa.Instruction, invoke bool) []Val {
	ct, ok := ex.c.Specs.Contracts[key]
	if !ok {
		return ex.callUnknown(st, fr, key, sig, args, site, in)
	}
	return ex.applyContract(st, fr, ct, fn, sig, args, site, in)
}

// callUnknown: callee without contract. Everything reachable may change, results are arbitrary.
func (ex *Exec) callUnknown(st *State, fr *Frame, key string, sig *types.Signature, args []Val, site string, in ssa.Instruction) []Val {
	ex.assumed["nocontract:"+key] = "callee without contract: havoc of the whole heap, arbitrary results"
	for _, a := range args {
		if p, ok := a.(*Ptr); ok && p.Kind == PCell {
			ex.unsup("pointer to local passed to %s", key)
		}
	}
	ex.checkWriteAll(st, fr, in, key)
	ex.havocAll(st)
	st.alloc = ex.bumpAlloc(st)
	var res []Val
	for i := 0; i < sig.Results().Len(); i++ {
		res = append(res, ex.freshTyped(st, "r_"+sanitize(shortKey(ex.c, key)), sig.Results().At(i).Type()))
	}
	return res
}

func (ex *Exec) callDynamic(st *State, fr *Frame, f T, sig *types.Signature, args []Val, site string, in ssa.Instruction) []Val {
	// function-typed parameter bound to a funcspec?
	if fr.contract != nil {
		for i, p := range fr.fn.Params {
			if pv, ok := fr.vals[p].(T); ok && pv.S == f.S {
				names := ex.paramNames(fr.fn, fr.contract)
				if spec, ok := fr.contract.Implements[names[i]]; ok {
					if ct, ok := ex.c.Specs.Contracts[fr.contract.PkgPath+"."+spec]; ok {
						return ex.applyContract(st, fr, ct, nil, sig, args, site, in)
					}
					ex.unsup("funcspec %s not found", spec)
				}
			}
		}
	}
	return ex.callUnknown(st, fr, "dynamic:"+site, sig, args, site, in)
}

// applyContract: assert requires, havoc modifies, assume ensures.
func (ex *Exec) applyContract(st *State, fr *Frame, ct *Contract, fn *ssa.Function, sig *types.Signature, args []Val, site string, in ssa.Instruction) []Val {
	c := ex.c
	if ct.External {
		ex.assumed["external:"+ct.Key] = "assumed contract of a dependency"
	} else if ct.Trusted {
		ex.assumed["trusted:"+ct.Key] = ct.TrustedWhy
	}
	fnKey := funcKey(fr.fn)
	where := ""
	if in != nil {
		where = ex.pos(in.Pos())
	}
	// Pointers to a struct that lives inside something else (an embedded struct of a heap object: &b.bucket, or a
	// local struct variable: &b) are passed by copy-in / copy-out through a temporary object, so that the callee's
	// contract, which speaks about an object of the pointee type, and the caller's view of the enclosing value
	// stay coherent. This assumes the callee reaches the pointee only through this pointer; it is refused when
	// another parameter could reach the enclosing object.
	type viewBack struct {
		tmp, orig *Ptr
	}
	var backs []viewBack
	if !ct.External {
		copied := false
		for i, a := range args {
			p, ok := a.(*Ptr)
			if !ok || (len(p.Path) == 0 && p.Kind != PCell) || p.Kind == PGlobal {
				continue
			}
			pt := ex.pointeeType(p)
			if pt == nil {
				continue
			}
			if _, isStruct := under(pt).(*types.Struct); !isStruct {
				continue
			}
			if p.Kind == PObj {
				for k := 0; k < sig.Params().Len(); k++ {
					if q, ok := under(sig.Params().At(k).Type()).(*types.Pointer); ok && types.Identical(q.Elem(), p.Base) {
						ex.unsup("interior pointer passed to %s together with a pointer to the enclosing %s", ct.Key, p.Base)
					}
				}
			}
			if !copied {
				args = append([]Val(nil), args...)
				copied = true
			}
			tmp := &Ptr{Kind: PObj, Ref: ex.newRef(st), Base: pt}
			ex.store(st, fr, tmp, ex.load(st, p), nil)
			args[i] = tmp
			backs = append(backs, viewBack{tmp, p})
		}
	}
	defer func() {
		for _, b := range backs {
			ex.store(st, fr, b.orig, ex.load(st, b.tmp), in)
		}
	}()
	// Function literals handed to a parameter for which the callee has a funcspec ("implements <param> <spec>"):
	// the literal must have a contract of its own saying "implements self <spec>" (its body is verified against the
	// funcspec separately, assuming its `captured` facts); here those facts are proved for the current values of the
	// captured variables, and the captured variables the literal assigns are unknown after the call.
	var havocAfter []Val
	var havocTypes []types.Type
	for i, a := range args {
		cl, ok := a.(*Closure)
		if !ok {
			continue
		}
		k := i
		if sig.Recv() != nil {
			k = i - 1
		}
		pname := ""
		if k >= 0 && k < len(ct.ParamNames) {
			pname = ct.ParamNames[k]
		} else if k >= 0 && k < sig.Params().Len() {
			pname = sig.Params().At(k).Name()
		}
		spec, has := ct.Implements[pname]
		if !has {
			ex.unsup("function literal passed to %s, whose contract has no funcspec for parameter %q", shortKey(c, ct.Key), pname)
		}
		cct := c.Specs.Contracts[funcKey(cl.Fn)]
		if cct == nil || cct.Implements["self"] != spec {
			ex.unsup("function literal %s passed to %s needs a contract with 'implements self %s'", shortKey(c, funcKey(cl.Fn)), shortKey(c, ct.Key), spec)
		}
		written := map[string]bool{}
		for _, b := range cl.Fn.Blocks {
			for _, ins := range b.Instrs {
				if stI, ok := ins.(*ssa.Store); ok {
					if fv, ok := stI.Addr.(*ssa.FreeVar); ok {
						written[fv.Name()] = true
					}
				}
			}
		}
		cev := &Eval{c: c, pkg: c.TPkgs[cct.PkgPath], vars: map[string]SV{}, view: st, bound: &ex.bound, ex: ex}
		for bi, fv := range cl.Fn.FreeVars {
			pt, ok := under(fv.Type()).(*types.Pointer)
			if !ok || bi >= len(cl.Bindings) {
				continue
			}
			if sv, ok := ex.capturedValue(st, cl.Bindings[bi], pt.Elem(), st); ok {
				cev.vars[fv.Name()] = sv
			}
			if written[fv.Name()] {
				havocAfter = append(havocAfter, cl.Bindings[bi])
				havocTypes = append(havocTypes, pt.Elem())
			}
		}
		for ci, cc := range cct.Captured {
			for w := range written {
				if regexp.MustCompile(`\b` + regexp.QuoteMeta(w) + `\b`).MatchString(cc.Src) {
					ex.unsup("captured clause %q of %s mentions %s, which the literal assigns", cc.Label, shortKey(c, cct.Key), w)
				}
			}
			ex.oblige(st, fnKey, fmt.Sprintf("closure(%s):%s", short0(site), labelOr(cc, ci)), clauseTags(cc, fr.contract), cev.Bool(cc.E), where, cc.Src)
		}
	}
	var closurePre *Snapshot
	defer func() {
		for i, b := range havocAfter {
			switch p := b.(type) {
			case *Ptr:
				ex.store(st, fr, p, ex.freshTyped(st, "captured", havocTypes[i]), nil)
			case T:
				ex.store(st, fr, &Ptr{Kind: PBox, Ref: p, Base: havocTypes[i]}, ex.freshTyped(st, "captured", havocTypes[i]), nil)
			}
		}
		// what the literals guarantee about the captured variables they assign (transitive two-state facts,
		// proved for one call of the literal; the callee may have called it any number of times)
		for _, a := range args {
			cl, ok := a.(*Closure)
			if !ok || closurePre == nil {
				continue
			}
			cct := c.Specs.Contracts[funcKey(cl.Fn)]
			if cct == nil || len(cct.CapturedPost) == 0 {
				continue
			}
			mk := func(view HeapView) *Eval {
				e := &Eval{c: c, pkg: c.TPkgs[cct.PkgPath], vars: map[string]SV{}, view: view, bound: &ex.bound, ex: ex}
				for bi, fv := range cl.Fn.FreeVars {
					pt, ok := under(fv.Type()).(*types.Pointer)
					if !ok || bi >= len(cl.Bindings) {
						continue
					}
					if sv, ok := ex.capturedValue(st, cl.Bindings[bi], pt.Elem(), view); ok {
						e.vars[fv.Name()] = sv
					}
				}
				return e
			}
			post := mk(st)
			post.old = mk(closurePre)
			for _, cp := range cct.CapturedPost {
				st.assume(post.Bool(cp.E))
			}
		}
	}()
	pre := st.snapshot()
	closurePre = pre
	ev := ex.sigEnv(st, ct, fn, sig, args, nil, pre, nil)
	short := site
	// implicit: receiver not nil
	if sig.Recv() != nil && len(args) > 0 {
		if _, isPtr := under(sig.Recv().Type()).(*types.Pointer); isPtr || types.IsInterface(sig.Recv().Type()) {
			rt := ex.term(st, args[0])
			if !(strings.HasPrefix(rt.S, "ref!") || strings.HasPrefix(rt.S, "(ipa ")) {
				g := Not(Eq(rt, Nil))
				ex.oblige(st, fnKey, fmt.Sprintf("pre(%s):receiver-not-nil", short), ex.safetyTags(fr), g, where, "receiver must not be nil")
				st.assume(g)
			}
		}
	}
	ex.atCallClauses(st, fr, site, short, fnKey, where)
	for i, r := range ct.Requires {
		g := ev.Bool(r.E)
		tags := r.Tags
		if len(tags) == 0 {
			tags = ex.safetyTags(fr)
			for _, t := range ct.Tags {
				tags = appendUniq(tags, t)
			}
		}
		ex.oblige(st, fnKey, fmt.Sprintf("pre(%s):%s", short, labelOr(r, i)), tags, g, where, r.Src)
		st.assume(g)
	}
	// frame
	if !ct.Pure {
		ex.checkCalleeFrame(st, fr, ct, ev, in)
		ex.applyModifies(st, ev, ct.Modifies)
		st.alloc = ex.bumpAlloc(st)
	}
	var res []T
	var out []Val
	for i := 0; i < sig.Results().Len(); i++ {
		name := "r"
		if i < len(ct.ResultNames) {
			name = ct.ResultNames[i]
		}
		v := ex.freshTyped(st, name+"_"+sanitize(ct.Name), sig.Results().At(i).Type())
		res = append(res, v)
		out = append(out, v)
	}
	post := ex.sigEnv(st, ct, fn, sig, args, res, st, pre)
	post.unchanged = func() T { return ex.frameUnchanged(ex.modTargets(ev, ct.Modifies), st, pre) }
	for _, e := range ct.Ensures {
		st.assume(post.Bool(e.E))
	}
	_ = c
	return out
}

func appendUniq(s []string, x string) []string {
	for _, y := range s {
		if y == x {
			return s
		}
	}
	return append(s, x)
}

// sigEnv: contract environment from a signature (used for callees, where no ssa.Function may exist).
func (ex *Exec) sigEnv(st *State, ct *Contract, fn *ssa.Function, sig *types.Signature, args []Val, res []T, view HeapView, old HeapView) *Eval {
	pkg := ex.c.TPkgs[ct.PkgPath]
	ev := &Eval{c: ex.c, pkg: pkg, vars: map[string]SV{}, view: view, bound: &ex.bound, ex: ex}
	i := 0
	if sig.Recv() != nil {
		name := ct.RecvName
		if name == "" {
			name = "recv"
		}
		ev.vars[name] = SV{T: ex.term(st, args[0]), Ty: goTy(ex.c, sig.Recv().Type())}
		i = 1
	}
	params := sig.Params()
	for k := 0; k < params.Len() && i+k < len(args); k++ {
		name := params.At(k).Name()
		if k < len(ct.ParamNames) {
			name = ct.ParamNames[k]
		}
		if name == "" || name == "_" {
			name = fmt.Sprintf("p%d", k)
		}
		ev.vars[name] = SV{T: ex.term(st, args[i+k]), Ty: goTy(ex.c, params.At(k).Type())}
	}
	results := sig.Results()
	for k := 0; k < results.Len() && k < len(res); k++ {
		name := fmt.Sprintf("r%d", k)
		if k < len(ct.ResultNames) {
			name = ct.ResultNames[k]
		}
		ev.vars[name] = SV{T: res[k], Ty: goTy(ex.c, results.At(k).Type())}
	}
	if old != nil {
		o := *ev
		o.view = old
		o.old = nil
		ev.old = &o
	}
	return ev
}

// ---- modifies -----------------------------------------------------------------------------

// modTarget is one location set of a modifies clause.
type modTarget struct {
	heap string
	sort string
	ref  *T // nil: the whole heap (every object)
	all  bool
}

func (ex *Exec) modTargets(ev *Eval, clauses []*Clause) []modTarget {
	c := ex.c
	var out []modTarget
	for _, cl := range clauses {
		for _, item := range splitTop(cl.Src) {
			item = strings.TrimSpace(item)
			switch {
			case item == "*":
				out = append(out, modTarget{all: true})
			case item == "nothing":
			case strings.HasPrefix(item, "any(") || strings.HasPrefix(item, "elems("):
				// any(T).f / any(T).* / elems(T)
				j := strings.IndexByte(item, ')')
				te, err := ParseType(item[strings.IndexByte(item, '(')+1 : j])
				if err != nil {
					sfail("modifies %s: %v", item, err)
				}
				ty := ev.resolveType(te)
				if strings.HasPrefix(item, "elems(") {
					hn, hs := c.ElemHeap(ty.Sort)
					out = append(out, modTarget{heap: hn, sort: hs})
					continue
				}
				fname := strings.TrimPrefix(item[j+1:], ".")
				stT := ty.Go
				if p, ok := under(stT).(*types.Pointer); ok {
					stT = p.Elem()
				}
				sti := under(stT).(*types.Struct)
				for i := 0; i < sti.NumFields(); i++ {
					if fname == "*" || sti.Field(i).Name() == fname {
						hn, hs := c.FieldHeap(stT, i)
						out = append(out, modTarget{heap: hn, sort: hs})
					}
				}
			case strings.HasPrefix(item, "mapof(") && strings.HasSuffix(item, ")"):
				// mapof(m): the entries of the map m
				e, err := ParseExpr(item[len("mapof(") : len(item)-1])
				if err != nil {
					sfail("modifies %s: %v", item, err)
				}
				v := ev.typed(ev.eval(e))
				if _, ok := under(v.Ty.Go).(*types.Map); !ok {
					sfail("modifies %s: not a map", item)
				}
				dom, val, ds, vs, _ := ex.mapHeaps(v.Ty.Go)
				r1, r2 := v.T, v.T
				out = append(out, modTarget{heap: dom, sort: ds, ref: &r1}, modTarget{heap: val, sort: vs, ref: &r2})
			case strings.HasSuffix(item, "[*]"):
				e, err := ParseExpr(strings.TrimSuffix(item, "[*]"))
				if err != nil {
					sfail("modifies %s: %v", item, err)
				}
				v := ev.typed(ev.eval(e))
				sl, ok := under(v.Ty.Go).(*types.Slice)
				if !ok {
					sfail("modifies %s: not a slice", item)
				}
				hn, hs := c.ElemHeap(c.SortOf(sl.Elem()))
				r := SlArr(v.T)
				out = append(out, modTarget{heap: hn, sort: hs, ref: &r})
			case strings.HasSuffix(item, ".*"):
				e, err := ParseExpr(strings.TrimSuffix(item, ".*"))
				if err != nil {
					sfail("modifies %s: %v", item, err)
				}
				v := ev.typed(ev.eval(e))
				p, ok := under(v.Ty.Go).(*types.Pointer)
				if !ok {
					sfail("modifies %s: not a pointer", item)
				}
				sti, ok := under(p.Elem()).(*types.Struct)
				if !ok {
					sfail("modifies %s: not a struct pointer", item)
				}
				for i := 0; i < sti.NumFields(); i++ {
					hn, hs := c.FieldHeap(p.Elem(), i)
					r := v.T
					out = append(out, modTarget{heap: hn, sort: hs, ref: &r})
				}
			default:
				e, err := ParseExpr(item)
				if err != nil {
					sfail("modifies %s: %v", item, err)
				}
				switch x := e.(type) {
				case *EIdent:
					if g, ok := c.Specs.Ghosts[x.Name]; ok {
						ty := ev.resolveType(g.Type)
						out = append(out, modTarget{heap: "gh_" + x.Name, sort: ty.Sort})
						continue
					}
					// package-level variable
					if ev.pkg != nil {
						if gv, ok := ev.pkg.Scope().Lookup(x.Name).(*types.Var); ok {
							out = append(out, modTarget{heap: "G_" + ev.pkg.Name() + "_" + x.Name, sort: c.SortOf(gv.Type())})
							continue
						}
					}
					sfail("modifies %s: not a location", item)
				case *EIndex:
					if id, ok := x.X.(*EIdent); ok {
						if g, ok := c.Specs.Ghosts[id.Name]; ok {
							ty := ev.resolveType(g.Type)
							k := ev.concretize(ev.eval(x.I), ty.Key)
							out = append(out, modTarget{heap: "gh_" + id.Name, sort: ty.Sort, ref: &k.T})
							continue
						}
					}
					sfail("modifies %s: unsupported", item)
				case *ESel:
					v := ev.typed(ev.eval(x.X))
					if v.Ty.Go == nil {
						sfail("modifies %s: ghost base", item)
					}
					obj, index, _ := types.LookupFieldOrMethod(v.Ty.Go, true, ev.pkg, x.Name)
					if _, ok := obj.(*types.Var); !ok {
						sfail("modifies %s: no such field", item)
					}
					cur := v
					for k, idx := range index {
						p, ok := under(cur.Ty.Go).(*types.Pointer)
						if !ok {
							sfail("modifies %s: path through a struct value", item)
						}
						hn, hs := c.FieldHeap(p.Elem(), idx)
						if k == len(index)-1 {
							r := cur.T
							out = append(out, modTarget{heap: hn, sort: hs, ref: &r})
						} else {
							si := c.StructOf(p.Elem())
							cur = SV{T: Select(ev.view.Heap(hn, hs), cur.T), Ty: goTy(c, si.Fields[idx].Go)}
						}
					}
				default:
					sfail("modifies %s: unsupported form", item)
				}
			}
		}
	}
	return out
}

func (ex *Exec) applyModifies(st *State, ev *Eval, clauses []*Clause) {
	targets := ex.modTargets(ev, clauses)
	for _, t := range targets {
		if t.all {
			ex.havocAll(st)
			return
		}
	}
	// whole heaps first, then single objects
	sort.SliceStable(targets, func(i, j int) bool { return targets[i].ref == nil && targets[j].ref != nil })
	for _, t := range targets {
		ex.c.declHeap(t.heap, t.sort)
		if t.ref == nil {
			st.heap[t.heap] = ex.fresh(st, t.heap, t.sort)
			continue
		}
		_, elem, _ := arrayParts(t.sort)
		nv := ex.fresh(st, t.heap+"_at", elem)
		ex.setHeap(st, t.heap, Store(st.Heap(t.heap, t.sort), *t.ref, nv))
	}
}

// frameTargets returns the declared frame of the function being verified (evaluated in its entry state).
func (ex *Exec) frameTargets(st *State, fr *Frame) ([]modTarget, bool) {
	top := st.frames[0]
	if top.contract == nil {
		return nil, false
	}
	ev := ex.contractEnv(st, top.fn, top.contract, top.args, nil, top.entry, nil)
	return ex.modTargets(ev, top.contract.Modifies), true
}

// checkWrite: a store to heap[ref] must hit a fresh object or the declared frame.
func (ex *Exec) checkWrite(st *State, fr *Frame, heap string, ref T, in ssa.Instruction) {
	if !ex.frameChk {
		return
	}
	top := st.frames[0]
	if top.contract == nil || in == nil {
		return
	}
	targets, _ := ex.frameTargets(st, fr)
	goal := False
	if heap[0] != 'G' && !strings.HasPrefix(heap, "gh_") {
		goal = App(">=", SBool, ref, top.entry.alloc) // allocated by this call
	}
	for _, t := range targets {
		if t.all {
			return
		}
		if t.heap != heap {
			continue
		}
		if t.ref == nil {
			return
		}
		goal = Or(goal, Eq(ref, *t.ref))
	}
	// a function literal may assign its own captured variables (they belong to the enclosing function, which
	// forgets their values after handing the literal to a callee)
	if strings.HasPrefix(heap, "B_") {
		for _, fvr := range ex.freeRefs {
			goal = Or(goal, Eq(ref, fvr))
		}
	}
	if goal.S == "true" {
		return
	}
	// fresh references are syntactically recognisable in the common case
	k := fmt.Sprintf("frame@%s", ex.instrOrdinal(fr, in))
	ex.oblige(st, funcKey(fr.fn), k, frameTags(top.contract), goal, ex.pos(in.Pos()), "write to "+heap+" outside the declared modifies clause")
}

func frameTags(ct *Contract) []string {
	return ct.Tags
}

func (ex *Exec) instrOrdinal(fr *Frame, in ssa.Instruction) string {
	if s, ok := fr.info.callOrd[in]; ok {
		return "call:" + s
	}
	if k := instrKind(in); k != "" {
		return fmt.Sprintf("%s%d", k, fr.info.ord[in])
	}
	return fmt.Sprintf("b%d", in.Block().Index)
}

func (ex *Exec) checkWriteAll(st *State, fr *Frame, in ssa.Instruction, what string) {
	if !ex.frameChk {
		return
	}
	top := st.frames[0]
	if top.contract == nil || in == nil {
		return
	}
	targets, _ := ex.frameTargets(st, fr)
	for _, t := range targets {
		if t.all {
			return
		}
	}
	k := fmt.Sprintf("frame@%s", ex.instrOrdinal(fr, in))
	ex.oblige(st, funcKey(fr.fn), k, frameTags(top.contract), False, ex.pos(in.Pos()), "call of "+what+" may modify anything, but the contract has no 'modifies *'")
}

// checkCalleeFrame: everything the callee may modify must be in the caller's frame (or fresh).
func (ex *Exec) checkCalleeFrame(st *State, fr *Frame, ct *Contract, ev *Eval, in ssa.Instruction) {
	if !ex.frameChk {
		return
	}
	top := st.frames[0]
	if top.contract == nil || in == nil || len(ct.Modifies) == 0 {
		return
	}
	callee := ex.modTargets(ev, ct.Modifies)
	mine, _ := ex.frameTargets(st, fr)
	for _, m := range mine {
		if m.all {
			return
		}
	}
	for i, t := range callee {
		if t.all {
			ex.checkWriteAll(st, fr, in, ct.Key)
			return
		}
		goal := False
		if t.ref != nil && t.heap[0] != 'G' && !strings.HasPrefix(t.heap, "gh_") {
			goal = App(">=", SBool, *t.ref, top.entry.alloc)
			if strings.HasPrefix(t.heap, "A_") {
				// the backing array of a nil slice has no elements: nothing can be written there
				goal = Or(goal, Eq(*t.ref, Nil))
			}
		}
		for _, m := range mine {
			if m.heap != t.heap {
				continue
			}
			if m.ref == nil {
				goal = True
				break
			}
			if t.ref != nil {
				goal = Or(goal, Eq(*t.ref, *m.ref))
			}
		}
		if goal.S == "true" {
			continue
		}
		k := fmt.Sprintf("frame@%s.%d", ex.instrOrdinal(fr, in), i+1)
		ex.oblige(st, funcKey(fr.fn), k, frameTags(top.contract), goal, ex.pos(in.Pos()), "callee "+shortKey(ex.c, ct.Key)+" modifies "+t.heap+" outside the caller's modifies clause")
	}
}

// callModifiesAll reports (syntactically) what a call inside a loop may change.
func (ex *Exec) callModifiesAll(fr *Frame, cc *ssa.CallCommon, heaps map[string]string) bool {
	var ct *Contract
	if cc.IsInvoke() {
		ct = ex.c.Specs.Contracts[ex.contractKeyInvoke(cc)]
	} else {
		switch f := cc.Value.(type) {
		case *ssa.Builtin:
			switch f.Name() {
			case "copy", "append":
				if len(cc.Args) > 0 {
					if sl, ok := under(cc.Args[0].Type()).(*types.Slice); ok {
						hn, hs := ex.c.ElemHeap(ex.c.SortOf(sl.Elem()))
						heaps[hn] = hs
					}
				}
			}
			return false
		case *ssa.Function:
			ct = ex.c.Specs.Contracts[funcKey(f)]
		default:
			// dynamic / closure: funcspec or unknown
			if fr.contract != nil {
				for i, p := range fr.fn.Params {
					if ssa.Value(p) == cc.Value || loadsParam(cc.Value, p) {
						names := ex.paramNames(fr.fn, fr.contract)
						if spec, ok := fr.contract.Implements[names[i]]; ok {
							ct = ex.c.Specs.Contracts[fr.contract.PkgPath+"."+spec]
						}
					}
				}
			}
		}
	}
	if ct == nil {
		return true
	}
	if ct.Pure {
		return false
	}
	// conservative by heap name: evaluate the clause shapes without values
	for _, cl := range ct.Modifies {
		for _, item := range splitTop(cl.Src) {
			item = strings.TrimSpace(item)
			if item == "*" {
				return true
			}
			if item == "nothing" {
				continue
			}
			// anything else: resolve heap names with a throw-away evaluation is not possible here
			// (no state); fall back to "all" unless the clause names a ghost variable or any(T).f
			if strings.HasPrefix(item, "any(") || strings.HasPrefix(item, "elems(") {
				ev := &Eval{c: ex.c, pkg: ex.c.TPkgs[ct.PkgPath], vars: map[string]SV{}, bound: &ex.bound, ex: ex}
				for _, t := range ex.modTargets(ev, []*Clause{{Src: item}}) {
					heaps[t.heap] = t.sort
				}
				continue
			}
			id := item
			if i := strings.IndexAny(id, "[."); i >= 0 {
				id = id[:i]
			}
			if g, ok := ex.c.Specs.Ghosts[id]; ok && !strings.Contains(item, ".") {
				ev := &Eval{c: ex.c, pkg: ex.c.TPkgs[ct.PkgPath], vars: map[string]SV{}, bound: &ex.bound, ex: ex}
				heaps["gh_"+id] = ev.resolveType(g.Type).Sort
				continue
			}
			return ex.modifiesByType(ct, item, heaps)
		}
	}
	return false
}

func loadsParam(v ssa.Value, p *ssa.Parameter) bool {
	if u, ok := v.(*ssa.UnOp); ok {
		if a, ok := u.X.(*ssa.Alloc); ok {
			return a.Comment == p.Name()
		}
	}
	return false
}

// modifiesByType resolves "x.f", "x.*", "s[*]" clauses to heap names using the callee's signature types.
func (ex *Exec) modifiesByType(ct *Contract, item string, heaps map[string]string) bool {
	fn := ex.c.funcsByKey[ct.Key]
	var sig *types.Signature
	if fn != nil {
		sig = fn.Signature
	} else {
		sig = ex.ifaceSig(ct)
	}
	if sig == nil {
		return true
	}
	// symbolic evaluation with dummy terms just to obtain heap names
	ev := &Eval{c: ex.c, pkg: ex.c.TPkgs[ct.PkgPath], vars: map[string]SV{}, bound: &ex.bound, ex: ex, view: dummyView{ex.c}}
	if sig.Recv() != nil {
		n := ct.RecvName
		if n == "" {
			n = "recv"
		}
		ev.vars[n] = SV{T: T{"dummy", ex.c.SortOf(sig.Recv().Type())}, Ty: goTy(ex.c, sig.Recv().Type())}
	}
	for k := 0; k < sig.Params().Len(); k++ {
		n := sig.Params().At(k).Name()
		if k < len(ct.ParamNames) {
			n = ct.ParamNames[k]
		}
		ev.vars[n] = SV{T: T{"dummy", ex.c.SortOf(sig.Params().At(k).Type())}, Ty: goTy(ex.c, sig.Params().At(k).Type())}
	}
	ok := true
	func() {
		defer func() {
			if r := recover(); r != nil {
				if _, isSpec := r.(specErr); isSpec {
					ok = false
					return
				}
				panic(r)
			}
		}()
		for _, t := range ex.modTargets(ev, []*Clause{{Src: item}}) {
			if t.all {
				ok = false
				return
			}
			heaps[t.heap] = t.sort
		}
	}()
	return !ok
}

type dummyView struct{ c *Ctx }

func (d dummyView) Heap(name, sort string) T { return T{"dummyheap", sort} }
func (d dummyView) AllocTerm() T             { return T{"dummyalloc", SInt} }

func (ex *Exec) ifaceSig(ct *Contract) *types.Signature {
	p := ex.c.TPkgs[ct.PkgPath]
	if p == nil || ct.Recv == "" {
		return nil
	}
	tn, ok := p.Scope().Lookup(ct.Recv).(*types.TypeName)
	if !ok {
		return nil
	}
	obj, _, _ := types.LookupFieldOrMethod(tn.Type(), true, p, ct.Name)
	if f, ok := obj.(*types.Func); ok {
		return f.Type().(*types.Signature)
	}
	return nil
}

// ---- builtins -----------------------------------------------------------------------------

func (ex *Exec) builtin(st *State, fr *Frame, b *ssa.Builtin, args []Val, in ssa.Instruction) []Val {
	c := ex.c
	switch b.Name() {
	case "len", "cap":
		v := ex.term(st, args[0])
		switch v.Sort {
		case SSlice:
			if b.Name() == "len" {
				return []Val{SlLen(v)}
			}
			return []Val{SlCap(v)}
		case SStr:
			return []Val{App("str_len", BV(64), v)}
		case SInt:
			// map
			r := ex.fresh(st, "maplen", BV(64))
			st.assume(bvCmp("bvsge", r, bvConst(0, 64)))
			return []Val{r}
		}
		ex.unsup("len of sort %s", v.Sort)
	case "copy":
		dst := ex.term(st, args[0])
		src := ex.term(st, args[1])
		if src.Sort == SStr {
			ex.unsup("copy from string")
		}
		et := under(b.Type().(*types.Signature).Params().At(0).Type()).(*types.Slice).Elem()
		n := ex.define(st, "ncopy", Ite(bvCmp("bvslt", SlLen(dst), SlLen(src)), SlLen(dst), SlLen(src)))
		ex.copyInto(st, fr, dst, bvConst(0, 64), src, bvConst(0, 64), n, et, in)
		return []Val{n}
	case "append":
		s := ex.term(st, args[0])
		sig := b.Type().(*types.Signature)
		et := under(sig.Params().At(0).Type()).(*types.Slice).Elem()
		e := ex.term(st, args[1])
		if e.Sort == SStr {
			ex.unsup("append of string")
		}
		return []Val{ex.appendSlice(st, fr, s, e, et, in)}
	case "min", "max":
		a := ex.term(st, args[0])
		bb := ex.term(st, args[1])
		signed := !isUnsigned(b.Type().(*types.Signature).Params().At(0).Type())
		op := "bvult"
		if signed {
			op = "bvslt"
		}
		lt := bvCmp(op, a, bb)
		if b.Name() == "min" {
			return []Val{Ite(lt, a, bb)}
		}
		return []Val{Ite(lt, bb, a)}
	case "delete":
		ex.mapDelete(st, fr, args, b)
		return nil
	case "print", "println":
		return nil
	case "ssa:deferstack":
		return []Val{Nil}
	}
	_ = c
	ex.unsup("builtin %s", b.Name())
	return nil
}

// copyInto writes n elements of src (from so) into the backing array of dst (at do).
func (ex *Exec) copyInto(st *State, fr *Frame, dst T, do T, src T, so T, n T, et types.Type, in ssa.Instruction) {
	c := ex.c
	es := c.SortOf(et)
	hn, hs := c.ElemHeap(es)
	h := st.Heap(hn, hs)
	ex.checkWrite(st, fr, hn, SlArr(dst), in)
	oldDst := Select(h, SlArr(dst))
	srcArr := Select(h, SlArr(src))
	na := ex.fresh(st, "copied", ArraySort(BV(64), es))
	dstStart := ex.define(st, "dstart", bvBin("bvadd", SlOff(dst), do))
	srcStart := ex.define(st, "sstart", bvBin("bvadd", SlOff(src), so))
	ex.bound++
	j := T{fmt.Sprintf("j!q%d", ex.bound), BV(64)}
	inRange := And(bvCmp("bvsle", dstStart, j), bvCmp("bvslt", j, bvBin("bvadd", dstStart, n)))
	body := Eq(Select(na, j), Ite(inRange, Select(srcArr, bvBin("bvadd", srcStart, bvBin("bvsub", j, dstStart))), Select(oldDst, j)))
	st.cmds = append(st.cmds, fmt.Sprintf("(assert (forall ((%s (_ BitVec 64))) (! %s :pattern ((select %s %s)))))", j.S, body.S, na.S, j.S))
	ex.setHeap(st, hn, Store(h, SlArr(dst), na))
	ex.writeBackSnap(st, fr, SlArr(dst), in)
}

func (ex *Exec) appendSlice(st *State, fr *Frame, s T, e T, et types.Type, in ssa.Instruction) T {
	c := ex.c
	es := c.SortOf(et)
	hn, hs := c.ElemHeap(es)
	n := SlLen(e)
	newLen := ex.define(st, "applen", bvBin("bvadd", SlLen(s), n))
	fits := bvCmp("bvsle", newLen, SlCap(s))
	if st.appendCase != 0 && in != nil {
		which := fits
		if st.appendCase == 2 {
			which = Not(fits)
		}
		top := st.frames[0]
		ex.oblige(st, funcKey(fr.fn), fmt.Sprintf("append-case@%s", ex.instrOrdinal(fr, in)), frameTags(top.contract), which, ex.pos(in.Pos()), "the alternative chosen by 'cases append-fits' must decide whether the append is in place")
		if st.appendCase == 1 {
			fits = True
		} else {
			fits = False
		}
	}
	st.appendCase = 0
	h := st.Heap(hn, hs)
	// Case split as two paths would double the paths; encode with ite instead.
	freshRef := ex.newRef(st)
	newCap := ex.fresh(st, "appcap", BV(64))
	st.assume(And(bvCmp("bvsge", newCap, newLen), bvCmp("bvsle", newCap, maxLen)))
	resArr := Ite(fits, SlArr(s), freshRef)
	resOff := Ite(fits, SlOff(s), bvConst(0, 64))
	resCap := Ite(fits, SlCap(s), newCap)
	// contents of the result backing array
	oldArr := Select(h, SlArr(s))
	srcArr := Select(h, SlArr(e))
	na := ex.fresh(st, "appended", ArraySort(BV(64), es))
	ex.bound++
	j := T{fmt.Sprintf("j!q%d", ex.bound), BV(64)}
	base := ex.define(st, "appbase", bvBin("bvadd", resOff, SlLen(s)))
	inNew := And(bvCmp("bvsle", base, j), bvCmp("bvslt", j, bvBin("bvadd", base, n)))
	inOld := And(bvCmp("bvsle", resOff, j), bvCmp("bvslt", j, base))
	// the contents of the result array, as four guarded equations (one formula with nested if-then-else is much
	// harder for the solvers than the same facts stated separately)
	emit := func(guard T, val T) {
		body := Implies(guard, Eq(Select(na, j), val))
		if body.S == "true" {
			return
		}
		st.cmds = append(st.cmds, fmt.Sprintf("(assert (forall ((%s (_ BitVec 64))) (! %s :pattern ((select %s %s)))))", j.S, body.S, na.S, j.S))
	}
	srcIdx := bvBin("bvadd", SlOff(e), bvBin("bvsub", j, base))
	emit(inNew, Select(srcArr, srcIdx))
	// index lemma (pure bit-vector arithmetic over the slice typing bounds, proved once by lemmas/append_index.smt2;
	// the solvers need 25 s and more to rediscover it inside a query): the source index stays inside the source
	st.cmds = append(st.cmds, fmt.Sprintf("(assert (forall ((%s (_ BitVec 64))) (! (=> %s (and (bvsle %s %s) (bvslt %s (bvadd %s %s)))) :pattern ((select %s %s)))))",
		j.S, inNew.S, SlOff(e).S, srcIdx.S, srcIdx.S, SlOff(e).S, n.S, na.S, j.S))
	// ... and is strictly monotone in the position (lemmas/append_index_mono.smt2)
	j2 := T{j.S + "b", BV(64)}
	inNew2 := And(bvCmp("bvsle", base, j2), bvCmp("bvslt", j2, bvBin("bvadd", base, n)))
	srcIdx2 := bvBin("bvadd", SlOff(e), bvBin("bvsub", j2, base))
	st.cmds = append(st.cmds, fmt.Sprintf("(assert (forall ((%s (_ BitVec 64)) (%s (_ BitVec 64))) (! (=> (and %s %s (bvslt %s %s)) (bvslt %s %s)) :pattern ((select %s %s) (select %s %s)))))",
		j.S, j2.S, inNew.S, inNew2.S, j.S, j2.S, srcIdx.S, srcIdx2.S, na.S, j.S, na.S, j2.S))
	emit(And(Not(inNew), fits), Select(oldArr, j))
	emit(And(Not(inNew), Not(fits), inOld), Select(oldArr, bvBin("bvadd", SlOff(s), bvBin("bvsub", j, resOff))))
	emit(And(Not(inNew), Not(fits), Not(inOld)), c.ZeroOfSort(es))
	// in-place append writes into the caller-visible array: frame check only when it fits
	if in != nil {
		top := st.frames[0]
		if ex.frameChk && top.contract != nil {
			targets, _ := ex.frameTargets(st, fr)
			goal := Or(Not(fits), Eq(n, bvConst(0, 64)), App(">=", SBool, SlArr(s), top.entry.alloc))
			skip := false
			for _, t := range targets {
				if t.all || (t.heap == hn && t.ref == nil) {
					skip = true
				} else if t.heap == hn {
					goal = Or(goal, Eq(SlArr(s), *t.ref))
				}
			}
			if !skip && goal.S != "true" {
				ex.oblige(st, funcKey(fr.fn), fmt.Sprintf("frame@%s", ex.instrOrdinal(fr, in)), frameTags(top.contract), goal, ex.pos(in.Pos()), "append may write into a backing array outside the modifies clause")
			}
		}
	}
	ex.setHeap(st, hn, Store(h, resArr, na))
	return ex.define(st, "appres", MkSlice(resArr, resOff, newLen, resCap))
}

// ---- maps (abstract) ----------------------------------------------------------------------

func (ex *Exec) mapHeaps(t types.Type) (dom, val string, ds, vs string, ks string) {
	m := under(t).(*types.Map)
	ks = ex.c.SortOf(m.Key())
	es := ex.c.SortOf(m.Elem())
	name := sanitize(ks) + "_" + sanitize(es)
	dom, val = "MD_"+name, "MV_"+name
	ds = ArraySort(SInt, ArraySort(ks, SBool))
	vs = ArraySort(SInt, ArraySort(ks, es))
	ex.c.declHeap(dom, ds)
	ex.c.declHeap(val, vs)
	return
}

func (ex *Exec) mapInit(st *State, t types.Type, ref T) {
	dom, val, ds, vs, ks := ex.mapHeaps(t)
	m := under(t).(*types.Map)
	ex.setHeap(st, dom, Store(st.Heap(dom, ds), ref, ConstArray(ArraySort(ks, SBool), False)))
	ex.setHeap(st, val, Store(st.Heap(val, vs), ref, ConstArray(ArraySort(ks, ex.c.SortOf(m.Elem())), ex.c.Zero(m.Elem()))))
}

func (ex *Exec) mapUpdate(st *State, fr *Frame, x *ssa.MapUpdate) {
	dom, val, ds, vs, _ := ex.mapHeaps(x.Map.Type())
	m := ex.term(st, ex.get(st, fr, x.Map))
	k := ex.term(st, ex.get(st, fr, x.Key))
	v := ex.term(st, ex.get(st, fr, x.Value))
	ex.checkWrite(st, fr, dom, m, x)
	d := st.Heap(dom, ds)
	vv := st.Heap(val, vs)
	ex.setHeap(st, dom, Store(d, m, Store(Select(d, m), k, True)))
	ex.setHeap(st, val, Store(vv, m, Store(Select(vv, m), k, v)))
}

func (ex *Exec) mapDelete(st *State, fr *Frame, args []Val, b *ssa.Builtin) {
	t := b.Type().(*types.Signature).Params().At(0).Type()
	dom, _, ds, _, _ := ex.mapHeaps(t)
	m := ex.term(st, args[0])
	k := ex.term(st, args[1])
	d := st.Heap(dom, ds)
	ex.setHeap(st, dom, Store(d, m, Store(Select(d, m), k, False)))
}

func (ex *Exec) lookup(st *State, fr *Frame, x *ssa.Lookup) {
	if _, ok := under(x.X.Type()).(*types.Map); !ok {
		ex.unsup("string indexing")
	}
	dom, val, ds, vs, _ := ex.mapHeaps(x.X.Type())
	m := ex.term(st, ex.get(st, fr, x.X))
	k := ex.term(st, ex.get(st, fr, x.Index))
	mt := under(x.X.Type()).(*types.Map)
	present := Select(Select(st.Heap(dom, ds), m), k)
	v := Ite(present, Select(Select(st.Heap(val, vs), m), k), ex.c.Zero(mt.Elem()))
	v = ex.define(st, x.Name(), v)
	if x.CommaOk {
		fr.vals[x] = Tuple{v, present}
	} else {
		fr.vals[x] = v
	}
}

// range over maps/strings: abstract iteration (arbitrary order, arbitrary element each step)
func (ex *Exec) rangeInit(st *State, fr *Frame, x *ssa.Range) {
	fr.vals[x] = ex.term(st, ex.get(st, fr, x.X))
}

func (ex *Exec) rangeNext(st *State, fr *Frame, x *ssa.Next) {
	if x.IsString {
		ex.unsup("range over string")
	}
	rng := x.Iter.(*ssa.Range)
	mt := under(rng.X.Type()).(*types.Map)
	dom, val, ds, vs, ks := ex.mapHeaps(rng.X.Type())
	m := ex.term(st, ex.get(st, fr, rng.X))
	ok := ex.fresh(st, "rangeok", SBool)
	k := ex.fresh(st, "rangekey", ks)
	ex.assumeTyped(st, k, mt.Key())
	st.assume(Implies(ok, Select(Select(st.Heap(dom, ds), m), k)))
	v := ex.define(st, "rangeval", Select(Select(st.Heap(val, vs), m), k))
	ex.assumeTyped(st, v, mt.Elem())
	fr.vals[x] = Tuple{ok, k, v}
}

// promotedView: converting *S to an interface whose methods are all promoted from one embedded
// interface-typed field of S yields, for the purpose of those methods, that embedded value
// (Go's method promotion: s.M() is s.field.M()).
func (ex *Exec) promotedView(st *State, v T, pt types.Type, target types.Type) (T, bool) {
	iface, ok := under(target).(*types.Interface)
	if !ok || iface.NumMethods() == 0 {
		return T{}, false
	}
	var path []int
	for i := 0; i < iface.NumMethods(); i++ {
		m := iface.Method(i)
		obj, index, _ := types.LookupFieldOrMethod(pt, true, m.Pkg(), m.Name())
		f, ok := obj.(*types.Func)
		if !ok || len(index) < 2 {
			return T{}, false
		}
		recv := f.Type().(*types.Signature).Recv()
		if recv == nil || !types.IsInterface(recv.Type()) {
			return T{}, false
		}
		p := index[:len(index)-1]
		if path == nil {
			path = p
		} else if fmt.Sprint(path) != fmt.Sprint(p) {
			return T{}, false
		}
	}
	cur := v
	curT := pt
	for _, idx := range path {
		p, ok := under(curT).(*types.Pointer)
		if !ok {
			return T{}, false
		}
		si := ex.c.StructOf(p.Elem())
		hn, hs := ex.c.FieldHeap(p.Elem(), idx)
		st.assume(Not(Eq(cur, Nil)))
		cur = Select(st.Heap(hn, hs), cur)
		curT = si.Fields[idx].Go
	}
	return ex.define(st, "promoted", cur), true
}

func short0(site string) string { return site }

// frameUnchanged: every location of the given frame holds in `now` the value it has in `before`.
func (ex *Exec) frameUnchanged(targets []modTarget, now HeapView, before HeapView) T {
	var cs []T
	seen := map[string]bool{}
	for _, t := range targets {
		if t.all {
			sfail("unchanged() with 'modifies *'")
		}
		if t.ref == nil {
			if seen[t.heap] {
				continue
			}
			seen[t.heap] = true
			a, b := now.Heap(t.heap, t.sort), before.Heap(t.heap, t.sort)
			if a.S != b.S {
				cs = append(cs, Eq(a, b))
			}
			continue
		}
		a, b := Select(now.Heap(t.heap, t.sort), *t.ref), Select(before.Heap(t.heap, t.sort), *t.ref)
		if a.S != b.S {
			cs = append(cs, Eq(a, b))
		}
	}
	if len(cs) == 0 {
		return True
	}
	return And(cs...)
}

// atCallClauses processes the program-point clauses of the function being verified for one call site
// ("at call <site>: assert|hint|cases ..."), before the callee's preconditions are checked.
func (ex *Exec) atCallClauses(st *State, fr *Frame, site, short, fnKey, where string) {
	if fr.contract != nil {
		for i, cl := range fr.contract.Asserts["call "+site] {
			lev := ex.loopEnv(st, fr)
			var g T
			if cl.Kind == "cases" {
				// "at call X@n: cases label: e1 || e2 || ...": the disjunction is an obligation; the rest of the
				// path is then verified once per alternative (a proof by cases chosen by the contract author)
				var alts []Expr
				var flat func(e Expr)
				flat = func(e Expr) {
					if b, ok := e.(*EBinary); ok && b.Op == "||" {
						flat(b.X)
						flat(b.Y)
						return
					}
					alts = append(alts, e)
				}
				flat(cl.E)
				key := fmt.Sprintf("%s|%s|%s", fnKey, short, labelOr(cl, i))
				if st.caseChoice == nil {
					st.caseChoice = map[string]int{}
				}
				choice, chosen := st.caseChoice[key]
				if !chosen {
					ex.oblige(st, fnKey, fmt.Sprintf("at(%s):%s", short, labelOr(cl, i)), clauseTags(cl, fr.contract), lev.Bool(cl.E), where, cl.Src)
					for k := 1; k < len(alts); k++ {
						o := st.clone()
						o.caseChoice[key] = k
						ex.pendingForks = append(ex.pendingForks, o)
					}
					st.caseChoice[key] = 0
					choice = 0
				}
				st.assume(lev.Bool(alts[choice]))
				if labelOr(cl, i) == "append-fits" && len(alts) == 2 {
					// "cases append-fits: <fits> || <does not fit>" at an append: the append below is modelled
					// without if-then-else on this path, after proving that the chosen alternative decides it
					st.appendCase = choice + 1
				}
				continue
			}
			if cl.Kind == "hint" {
				ok := func() (ok bool) {
					defer func() {
						if r := recover(); r != nil {
							if _, isSpec := r.(specErr); !isSpec {
								panic(r)
							}
							ok = false
						}
					}()
					g = lev.Bool(cl.E)
					return true
				}()
				if !ok {
					continue // the hint no longer applies to this body
				}
			} else {
				g = lev.Bool(cl.E)
			}
			kindName := "at"
			if cl.Kind == "hint" {
				kindName = "hint" // proof aids are named apart: they may vanish after a harmless edit and are not frozen
			}
			ex.oblige(st, fnKey, fmt.Sprintf("%s(%s):%s", kindName, short, labelOr(cl, i)), clauseTags(cl, fr.contract), g, where, cl.Src)
			st.assume(g) // proved above; from here on it is a lemma
		}
	}
}
