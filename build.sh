#!/bin/sh
# builds the verifier offline (into bin/ beside this script)
cd "$(dirname "$0")/govc" && GOFLAGS=-mod=mod GOPROXY=off GOSUMDB=off GOTOOLCHAIN=local go build -o ../bin/govc .
