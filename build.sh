#!/bin/sh
# builds the verifier offline
cd /verif/govc && GOFLAGS=-mod=mod GOPROXY=off GOSUMDB=off GOTOOLCHAIN=local go build -o ../bin/govc .
