#!/usr/bin/env python3
# writes MANIFEST.json from the table below (claims are edited here, not in the JSON)
import json, subprocess
hooks = subprocess.run(["git","-C","/repo","log","--format=%h %s"],capture_output=True,text=True).stdout.splitlines()
hook_commits = [l.split()[0] for l in hooks if l.split(" ",1)[1].startswith("verif:") or "uncommitted hook changes" in l]
COMMON_NOTE = ("Trusted: GoVC itself (go/ssa -> SMT-LIB generator written for this task), go/types+go/ssa of x/tools v0.29.0, the SMT solvers "
 "(an obligation is discharged when one of z3 5.1.0 / cvc5 1.0.3 / z3 4.8.12 answers unsat), the assumed contracts of the standard library in /verif/stdlib "
 "(encoding/binary, io.ReadFull, crc32 as an uninterpreted function of the bytes, bufio.Reader as an unbuffered handle), the interface contracts of fs.File/fs.FileSystem "
 "in /repo/fs/verif_contracts.go as the model of every file system, 64-bit int. Callers are checked against callee contracts, never bodies. "
 "Failed obligations with quantifiers give no model, so violations are reported with no-failing-input-found. ")
C = {
 "C01": ("bucket-level part only: bucket.del keeps every other slot and shifts the tail (all slot indices, loop invariant), bucket Marshal/UnmarshalBinary are inverse on all 31 slots and the next pointer, bucketOffset, file.extend zero-fills and keeps the prefix, datalog.readKey/readKeyValue return exactly the stored key/value bytes of a valid slot, trackDel stays inside the table.",
         "NOT covered: index.get/put/delete/findInsertionBucket/split and the DB methods (the abstract-map layer of DESIGN 4.6 was not reached), so map semantics as a whole is not decided; defect D1 in findInsertionBucket (repaired, see known_findings.json) lies in the uncovered part and is guarded only by its regression history in the thorough tier."),
 "C02": ("persistence codecs only: the bytes Close writes for a bucket decode to the same bucket (all slots, next pointer, padding), file.empty, file.extend preserve FILE-INV.",
         "NOT covered: index/segment meta gob round trip, Open/Close sequencing, mmap vs plain FS equivalence."),
 "C03": ("write path of the log: file.append and datalog.writeRecord are append-only for every open file (no byte below the old length of any file changes, other files untouched, lengths only grow), the record lands at the returned offset of the current segment, DL-INV is preserved across rollover.",
         "NOT covered: crash invariants at the DB level (index update vs WAL order, lock file protocol), recovery replay; datalog.swapSegment is trusted (contract assumed, body not verified)."),
 "C04": ("recovery's segment walk: recoveryIterator.next (every number of segments, every iteration: loop invariant + variant) keeps FILE-INV (cached file.size == length of the file behind the handle) for every segment it was given, including the one it truncates (this is the obligation that the pre-fix code of defect D2 fails), truncates only downwards and never below the header, returns ErrIterationDone only when every segment was consumed, and passes on only records the validating reader accepted; newSegmentIterator establishes the iterator invariant.",
         "NOT covered: DB.recover (replay into the index, rebuilt segment metas, sealing of all but the newest segment), backupNonsegmentFiles/removeRecoveryBackupFiles, crashes during recovery itself, idempotence of recovery as a whole. Assumed of the caller: the segments are distinct files opened once (precondition recItInv)."),
 "C05": ("log-side steps used by compaction: removeSegment removes exactly the given table entry and leaves every other entry, writeRecord keeps all existing entries, trackDel only touches the meta of the slot's segment.",
         "NOT covered: DB.compact/promoteRecord/pickForCompaction, interleaving with writers, recovery during compaction."),
 "C06": ("SEALED-DURABLE invariant of the log: after datalog.sync returns nil every segment of the table is durable up to its length; writeRecord (including rollover) keeps every non-current segment durable; removeSegment requires the remaining segments to be durable.",
         "NOT covered: DB.Sync/Put sync modes, compaction syncing the copies before removal (defect D4 of DESIGN 6 is in DB.compact, not under contract, still present), index durability. datalog.swapSegment trusted."),
 "C08": ("the validating reader: for every file content and every offset segmentIterator.next returns a record iff the bytes at the offset are a complete record of the documented format with a matching CRC-32, returns exactly its key/value/type, advances by its size, and otherwise fails with ErrIterationDone/EOF/UnexpectedEOF/errCorrupted without advancing and without panicking; header.UnmarshalBinary/readHeader accept exactly the signature; encodeRecord produces what the reader accepts.",
         "Also recoveryIterator.next: a segment is cut only at an offset where that reader rejects the record (obligation at(Truncate@1):cut-at-invalid), bytes below the new length are unchanged, later segments are still visited after a truncation. NOT covered: DB.recover's replay into the index; that a flipped bit changes the CRC is the assumed error-detection property of CRC-32 (crc is uninterpreted)."),
 "C14": ("encodeRecord returns a freshly allocated buffer holding copies of key and value (arguments are not retained); readKey/readKeyValue results hold exactly the stored bytes.",
         "NOT covered: that DB.Get/GetAppend/ItemIterator.Next copy out of FS memory before returning (DB layer not under contract), mmap remapping."),
 "C15": ("removeSegment: when it returns nil the table entry is nil, the handle is closed, and both <name> and <name>.pmt are gone from the directory; DL-INV still holds; datalog.sync succeeds (no error other than an I/O error) in every state satisfying DL-INV, including after the current segment was removed.",
         "NOT covered: DB.compact's selection and reporting, bounded directory growth under a workload, descriptor/mapping accounting."),
 "C16": ("codec level: encodeRecord/encodePutRecord/encodeDeleteRecord store key length (all 0..65535) and value length (all 0..2^31-1) losslessly with the type bit; segmentIterator.next reads them back exactly; writeRecord's offset/size conversions are lossless; readKey/readKeyValue return slices of exactly keySize/valueSize bytes; slot.kvSize/encodedRecordSize arithmetic.",
         "NOT covered: the limit checks in DB.Put and their atomicity, behaviour of Get/Has/Delete with over-long keys (DB layer)."),
 "C18": ("every encoder and decoder of the on-disk format against a fixed transcription of docs/design.md: 512-byte header (signature, version 2, zero padding) written by writeHeader/MarshalBinary and recognised by readHeader/UnmarshalBinary; record layout key size, type bit + value size, key, value, CRC32 in encodeRecord and segmentIterator.next; 512-byte bucket layout in bucket Marshal/UnmarshalBinary; bucketOffset.",
         "NOT covered: segment file naming, gob-encoded meta files, compatibility with directories written by the pinned version (needs executions, not contracts), murmur hash."),
 "C19": ("allocation in recovery's reader: the only make() in segmentIterator.next is bounded by the bytes left in the segment file for every claimed key/value length (obligation segmentIterator.next#alloc@1:record-buffer); work per call is loop-free.",
         "recoveryIterator.next's loop has a proved variant (2*remaining segments + current one), so one call visits each segment at most once. NOT covered: number of iterations of DB.recover's own loop."),
}
NA = {
 "C07": "contracts are per call and sequential: linearizability of concurrent histories is outside what function contracts decide (DESIGN 7); the lock-discipline premises that could be checked were not built.",
 "C09": "not claimed: needs the durability frontier at DB.Close (all files synced before the lock file is removed); DB.Close, index.close, writeGobFile are not under contract. Defect D5 of DESIGN 6 (Close syncs nothing) is documented there and is not covered by any check.",
 "C10": "data races, deadlocks and goroutine leaks are properties of schedules; function contracts cannot decide them (DESIGN 7). The sequential no-panic sweep exists only for the functions listed under the other properties.",
 "C11": "not claimed: ItemIterator.Next/fetchItems are not under contract; the only tagged obligation group (readKeyValue) does not decide completeness or truthfulness of a scan.",
 "C12": "not claimed: DB.Backup is not under contract; the append-only contract of file.append alone does not decide snapshot consistency.",
 "C13": "mutual exclusion between concurrent openers is a property of interleavings of file-system calls by different processes; not expressible as a function contract (DESIGN 7). The sequential clauses were not built.",
 "C17": "not claimed: the refinement proofs of fs/mem.go, fs/os.go, fs/os_mmap.go against the fs.File contract were not built; os and mmap behaviour would be trusted anyway.",
}
checks = []
for pid,(text,gap) in C.items():
    checks.append({
      "property_id": pid,
      "quick_cmd": "bin/govc check -property %s -tier quick" % pid,
      "thorough_cmd": "sh thorough.sh %s" % pid,
      "evidence_file": "/verif/evidence/%s.json" % pid,
      "replay_cmd_template": "cat {path}",
      "engine": "govc",
      "technique": "contract-based deductive verification: VCs generated from go/ssa of the real code, discharged by z3/cvc5",
      "level_claimed": {"category": "proof", "text": "Unbounded proof (all inputs, all loop iterations) of a PART of the property: " + text + " " + gap, "design_ref": "DESIGN.md section 0a (status as built), section 5/" + pid},
      "level_note": COMMON_NOTE + gap,
    })
m = {
 "version": 1,
 "setup_cmd": "cd /verif/govc && GOFLAGS=-mod=mod GOPROXY=off GOSUMDB=off GOTOOLCHAIN=local go build -o ../bin/govc .",
 "hooks": {
  "guard": "verif",
  "enable": "go build -tags verif: the hooks are comment-only contract files (//go:build verif) that GoVC reads; they add nothing executable",
  "baseline_off_cmd": "cd /repo && GOFLAGS=-mod=mod GOPROXY=off GOSUMDB=off go test -vet=off -count=1 ./...",
  "source_commits": hook_commits,
  "add_only": True,
 },
 "engines": [{"name": "govc", "path": "/verif/govc", "serves_properties": sorted(C), "kind_free_text": "contract-based deductive verifier for Go written for this task: contracts in //@ comments of /repo/**/verif_contracts*.go, go/ssa symbolic execution of the real functions between cut points, one SMT-LIB query per obligation and path, raced on z3 5.1.0 (two configurations), cvc5 1.0.3, z3 4.8.12; reachability guards against vacuous preconditions"}],
 "checks": checks,
 "notes": "Every claim is partial and says which functions carry it (DESIGN.md section 0a). Repaired defects: D3 (C06), D6, D7 (C15), D8 (C19) detected by obligations; D1 (C01), D2 (C04) found by design-phase histories, repaired, guarded by regression histories. Known but neither repaired nor covered: D4, D5 (DESIGN 6). selftest/run.py is the must-fail corpus (18 mutants incl. the pre-fix versions), run by the thorough tier.",
 "not_applicable": [{"property_id": k, "reason": v} for k,v in sorted(NA.items())],
}
json.dump(m, open("/verif/MANIFEST.json","w"), indent=1)
print(len(checks), "checks;", hook_commits)
