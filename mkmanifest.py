#!/usr/bin/env python3
# writes MANIFEST.json from the table below (claims are edited here, not in the JSON)
import json, subprocess
hooks = subprocess.run(["git","-C","/repo","log","--format=%h %s"],capture_output=True,text=True).stdout.splitlines()
hook_commits = [l.split()[0] for l in hooks if l.split(" ",1)[1].startswith("verif:") or "uncommitted hook changes" in l]
COMMON_NOTE = ("Trusted: GoVC itself (go/ssa -> SMT-LIB generator written for this task), go/types+go/ssa of x/tools v0.29.0, the SMT solvers "
 "(an obligation is discharged when one of z3 5.1.0 / cvc5 1.0.3 / z3 4.8.12 answers unsat), the assumed contracts of the standard library in /verif/stdlib "
 "(encoding/binary, io.ReadFull, crc32 as an uninterpreted function of the bytes, bufio.Reader as an unbuffered handle), the interface contracts of fs.File/fs.FileSystem "
 "in /repo/fs/verif_contracts.go as the model of every file system, 64-bit int. Callers are checked against callee contracts, never bodies. "
 "Failed obligations with quantifiers give no model, so violations are reported with no-failing-input-found. ")
C = {
 "C01": ("index I/O and bucket level: bucket.del keeps every other slot and shifts the tail; bucket Marshal/UnmarshalBinary are inverse on all 31 slots and the next pointer; bucketHandle.read/write read and write exactly one bucket at its offset and leave every other byte of the file alone; bucketIterator.next walks the chain through the overflow file; index.bucketIndex is the linear-hashing address and is < numBuckets for every level/split pointer; IDX-WF (all overflow pointers inside the overflow file) is preserved by DB.promoteRecord, which also rewrites only the one slot it found and discards a record only after the whole bucket chain of its hash was walked (obligation at(return):discard-only-at-chain-end); readKey/readKeyValue return exactly the stored bytes of a valid slot.",
         "NOT covered: index.get/put/delete/findInsertionBucket/split/slotWriter (the closures they receive are not supported yet; DB.put/DB.del have ASSUMED contracts), DB.Get/Has/Count/Items, so map semantics as a whole is not decided; defect D1 (repaired) is guarded only by its regression history in the thorough tier. DB.hash is assumed to be a function of bytes and seed."),
 "C02": ("close side of a clean restart: DB.Close (database without background worker) writes db.pmt, every <segment>.pmt and index.pmt, closes every segment and both index files before it removes the lock file (obligation at(Unlock@2):closed-first), for every number of segments (loop invariant in datalog.close); openFile returns a wrapper with FILE-INV and recognises/creates the version-2 header; bucket codec round trip; file.empty/extend.",
         "NOT covered: Open (readGobFile, openIndex, openDatalog), the gob encoding of the meta structs (what the bytes are is not modelled), mmap vs plain FS equivalence."),
 "C03": ("write path and close protocol: file.append/datalog.writeRecord/put/del are append-only for every open file (no byte below the old length of any file changes, sealed segments are never written, lengths only grow); DB.Put/Delete keep DB-INV; DB.promoteRecord and DB.compact (sequential) keep it and remove the source segment last; DB.Close removes the lock file only after every other file was written and closed.",
         "NOT covered: the order 'WAL record before index update' inside DB.Put (DB.put is an assumed contract), recovery replay (DB.recover), crash points inside a single file-system call (torn writes), Open. datalog.swapSegment, DB.put, DB.del are trusted (contracts assumed)."),
 "C04": ("recovery's segment walk: recoveryIterator.next (every number of segments, every iteration: loop invariant + variant) keeps FILE-INV (cached file.size == length of the file behind the handle) for every segment it was given, including the one it truncates (the obligation the pre-fix code of defect D2 fails), truncates only downwards and never below the header, returns ErrIterationDone only when every segment was consumed, and passes on only records the validating reader accepted; segmentIterator.next reports 'done' only at the end of the file; newSegmentIterator establishes the iterator invariant.",
         "NOT covered: DB.recover (replay into the index, rebuilt segment metas, sealing of all but the newest segment), backupNonsegmentFiles/removeRecoveryBackupFiles, crashes during recovery itself, idempotence of recovery as a whole. Assumed of the caller: the segments are distinct files opened once (precondition recItInv)."),
 "C05": ("one compaction of one segment, sequentially: DB.compact seals the source, looks at every record up to the end of the file (obligation at(removeSegment@1):whole-segment-read), promotes through DB.promoteRecord, which discards a record only if no slot of the whole bucket chain points at it and otherwise appends a copy to a segment that accepts writes and repoints exactly that slot; sealed segments are never written; the source is removed last and every other table entry is kept; promoteRecord never returns ErrIterationDone (which compact would take for 'segment exhausted').",
         "NOT covered: writers slipping in between two records (the lock-release windows are a property of schedules: the sequential contract assumes nobody else runs), pickForCompaction's choice and order (float arithmetic, sort), DB.Compact, recovery from a crash inside compaction."),
 "C06": ("durability frontier of the log: after datalog.sync / DB.sync / DB.Sync return nil every segment of the table is durable up to its length; DB.Put and DB.Delete in sync-after-every-write mode end in that state; writeRecord (including rollover) keeps every non-current segment durable; DB.compact makes the copies durable before it removes the source (obligation pre(removeSegment@1):copies-durable - the one defect D4 failed before its repair).",
         "NOT covered: durability of the index (it is rebuilt by recovery), recovery itself, fs implementations of Sync (interface contract assumed). datalog.swapSegment, DB.put, DB.del trusted."),
 "C08": ("the validating reader: for every file content and every offset segmentIterator.next returns a record iff the bytes at the offset are a complete record of the documented format with a matching CRC-32, returns exactly its key/value/type, advances by its size, and otherwise fails with ErrIterationDone/EOF/UnexpectedEOF/errCorrupted without advancing and without panicking; recoveryIterator.next cuts a segment only at an offset where that reader rejects the record (obligation at(Truncate@1):cut-at-invalid), leaves the bytes below the new length unchanged and goes on with the later segments; header.UnmarshalBinary/readHeader accept exactly the signature; encodeRecord produces what the reader accepts.",
         "NOT covered: DB.recover's replay into the index; that a flipped bit changes the CRC is the assumed error-detection property of CRC-32 (crc is uninterpreted)."),
 "C09": ("DB.Close (database without background worker): when the lock file is removed, db.pmt, index.pmt, main.pix, overflow.pix, every segment of the table and every <segment>.pmt are durable up to their length (obligation at(Unlock@2):durable-first, carried by writeGobFile, index.close and the loop invariant of datalog.close for every number of segments). This is the obligation group that failed before the repair of defect D5.",
         "NOT covered: that the next Open reads back what Close wrote (gob decoding, Open not under contract), files in the directory other than the ones named, a database with a background worker (precondition cancelBgWorker == nil)."),
 "C14": ("encodeRecord returns a freshly allocated buffer holding copies of key and value (arguments are not retained); readKey/readKeyValue results hold exactly the stored bytes.",
         "NOT covered: that DB.Get/GetAppend/ItemIterator.Next copy out of FS memory before returning (not under contract), mmap remapping."),
 "C15": ("removeSegment: when it returns nil the table entry is nil, the handle is closed, and both <name> and <name>.pmt are gone from the directory; DB.compact returns nil only after that; DL-INV still holds; datalog.sync/DB.Sync succeed (no error other than an I/O error) in every state satisfying DL-INV, including after the current segment was removed.",
         "NOT covered: DB.Compact's selection and reporting, Backup after compaction, bounded directory growth under a workload, descriptor/mapping accounting."),
 "C16": ("limits and codec: DB.Put rejects keys > 65535 and values > 512 MiB with the documented errors and leaves files, directory, key count and log untouched in that case; otherwise the lengths it hands to the encoder fit the on-disk fields (obligation pre(put@1):klen); datalog.put writes key size, value size, key and value bytes at the returned offset; encodeRecord/segmentIterator.next store and read back all key lengths 0..65535 and value lengths 0..2^31-1 losslessly; readKey/readKeyValue return slices of exactly keySize/valueSize bytes.",
         "NOT covered: behaviour of Get/Has/Delete with over-long keys (closures, not under contract), round trip across restart/recovery."),
 "C18": ("every encoder and decoder of the on-disk format against a fixed transcription of docs/design.md: 512-byte header (signature, version 2, zero padding) written by writeHeader/MarshalBinary and recognised by readHeader/UnmarshalBinary/openFile; record layout key size, type bit + value size, key, value, CRC32 in encodeRecord and segmentIterator.next; 512-byte bucket layout in bucket Marshal/UnmarshalBinary and bucketHandle.read/write; bucketOffset; the linear-hashing address computed by index.bucketIndex.",
         "NOT covered: segment file naming, gob-encoded meta files (field names and types are not pinned), compatibility with directories written by the pinned version (needs executions, not contracts), murmur hash."),
 "C19": ("allocation in recovery's reader: the only make() in segmentIterator.next is bounded by the bytes left in the segment file for every claimed key/value length (obligation segmentIterator.next#alloc@1:record-buffer); recoveryIterator.next's loop has a proved variant (2*remaining segments + current one), so one call visits each segment at most once.",
         "NOT covered: number of iterations of DB.recover's own loop."),
}
NA = {
 "C07": "contracts are per call and sequential: linearizability of concurrent histories is outside what function contracts decide (DESIGN 7); the lock-discipline premises that could be checked were not built.",
 "C10": "data races, deadlocks and goroutine leaks are properties of schedules; function contracts cannot decide them (DESIGN 7). The sequential no-panic sweep exists only for the functions listed under the other properties.",
 "C11": "not claimed: ItemIterator.Next/fetchItems are not under contract; the only tagged obligation group (readKeyValue) does not decide completeness or truthfulness of a scan.",
 "C12": "not claimed: DB.Backup is not under contract; the append-only contract of file.append alone does not decide snapshot consistency.",
 "C13": "mutual exclusion between concurrent openers is a property of interleavings of file-system calls by different processes; not expressible as a function contract (DESIGN 7). The sequential clauses were not built.",
 "C17": "not claimed: the refinement proofs of fs/mem.go, fs/os.go, fs/os_mmap.go against the fs.File contract were not built; os and mmap behaviour would be trusted anyway.",
}
checks = []
for pid,(text,gap) in C.items():
    checks.append({
      "property_id": pid,
      "quick_cmd": "bin/govc check -property %s -tier quick" % pid,
      "thorough_cmd": "sh thorough.sh %s" % pid,
      "evidence_file": "/verif/evidence/%s.json" % pid,
      "replay_cmd_template": "cat {path}",
      "engine": "govc",
      "technique": "contract-based deductive verification: VCs generated from go/ssa of the real code, discharged by z3/cvc5",
      "level_claimed": {"category": "proof", "text": "Unbounded proof (all inputs, all loop iterations) of a PART of the property: " + text + " " + gap, "design_ref": "DESIGN.md section 0a (status as built), section 5/" + pid},
      "level_note": COMMON_NOTE + gap,
    })
m = {
 "version": 1,
 "setup_cmd": "cd /verif/govc && GOFLAGS=-mod=mod GOPROXY=off GOSUMDB=off GOTOOLCHAIN=local go build -o ../bin/govc .",
 "hooks": {
  "guard": "verif",
  "enable": "go build -tags verif: the hooks are comment-only contract files (//go:build verif) that GoVC reads; they add nothing executable",
  "baseline_off_cmd": "cd /repo && GOFLAGS=-mod=mod GOPROXY=off GOSUMDB=off go test -vet=off -count=1 ./...",
  "source_commits": hook_commits,
  "add_only": True,
 },
 "engines": [{"name": "govc", "path": "/verif/govc", "serves_properties": sorted(C), "kind_free_text": "contract-based deductive verifier for Go written for this task: contracts in //@ comments of /repo/**/verif_contracts*.go, go/ssa symbolic execution of the real functions between cut points, one SMT-LIB query per obligation and path, raced on z3 5.1.0 (two configurations), cvc5 1.0.3, z3 4.8.12; reachability guards against vacuous preconditions"}],
 "checks": checks,
 "notes": "Every claim is partial and says which functions carry it (DESIGN.md section 0a). Repaired defects: D2 (C04), D3, D4 (C06), D5 (C09), D6, D7 (C15), D8 (C19) are detected by obligations (pre-fix versions are canaries in selftest/corpus.json); D1 (C01) was found by a design-phase history and is guarded by regression histories. selftest/run.py is the must-fail corpus, run by the thorough tier; seeded/ holds 30 confirmed property-breaking changes written by sub-agents, with seeded/run.py and results.json.",
 "not_applicable": [{"property_id": k, "reason": v} for k,v in sorted(NA.items())],
}
json.dump(m, open("/verif/MANIFEST.json","w"), indent=1)
print(len(checks), "checks;", hook_commits)
