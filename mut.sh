#!/bin/sh
# usage: mut.sh <file> <sed-expr> <func-regex>   — dev helper: run govc on a scratch copy with one edit
d=$(mktemp -d /tmp/mut.XXXXXX)
cp -r /repo/. $d/
(cd $d && sed -i "$2" "$1" && git diff --stat | tail -1)
(cd $d && GOFLAGS=-mod=mod GOPROXY=off go build ./... 2>&1 | head -3)
/verif/bin/govc verify -repo $d -func "$3" 2>&1 | grep -v '^  ' | tail -${4:-8}
rm -rf $d
