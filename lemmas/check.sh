#!/bin/sh
# Re-proves the pure bit-vector lemmas that GoVC's models of Go builtins assume (they do not depend on /repo).
# exit 0: every lemma is unsat (= proved); exit 2 otherwise (tool problem, never a property violation).
cd "$(dirname "$0")" || exit 2
for f in *.smt2; do
 r=$(cvc5 --tlimit=240000 "$f" 2>&1 | head -1)
 if [ "$r" != "unsat" ]; then
  r=$(z3-new -T:600 "$f" 2>&1 | head -1)
 fi
 if [ "$r" != "unsat" ]; then echo "lemma $f not proved: $r"; exit 2; fi
 echo "lemma $f proved"
done
exit 0
