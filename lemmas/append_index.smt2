; Index lemma assumed by GoVC's model of append(s, e...) (govc/calls.go appendSlice):
; with every slice offset/length bounded by 2^48 (the typing facts GoVC assumes for all slices),
; base = off(s)+len(s) and base <= j < base+len(e), the source index off(e) + (j - base) lies in
; [off(e), off(e)+len(e)).  Proved here once (cvc5: ~25 s); build.sh fails if this is not unsat.
(set-logic QF_BV)
(declare-const o (_ BitVec 64))
(declare-const l (_ BitVec 64))
(declare-const oo (_ BitVec 64))
(declare-const n (_ BitVec 64))
(declare-const q (_ BitVec 64))
(define-fun M () (_ BitVec 64) #x0001000000000000)
(assert (and (bvsle #x0000000000000000 o) (bvsle o M) (bvsle #x0000000000000000 l) (bvsle l M) (bvsle #x0000000000000000 oo) (bvsle oo M) (bvsle #x0000000000000000 n) (bvsle n M)))
(assert (and (bvsle (bvadd o l) q) (bvslt q (bvadd (bvadd o l) n))))
(define-fun k () (_ BitVec 64) (bvadd oo (bvsub q (bvadd o l))))
(assert (not (and (bvsle oo k) (bvslt k (bvadd oo n)))))
(check-sat)
