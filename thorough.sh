#!/bin/sh
# thorough tier of one property (cwd /verif): usage thorough.sh Cxx
#  1. every obligation of the property re-solved from scratch (no verdict cache) with 90 s solver timeouts
#  2. the regression histories of the repaired defects of that property, run against the real code of /repo
#     through `go test -overlay` (nothing is written into /repo)
#  2b. (C01 only) the pure bit-vector lemmas assumed by the models of Go builtins (lemmas/*.smt2) re-proved
#  3. the must-fail mutants of the property on scratch copies (a missed mutant means the check has lost its
#     teeth: exit 2, not a VIOLATION)
p=$1
cd /verif || exit 2
bin/govc check -property "$p" -tier thorough || exit $?
t=
case "$p" in
 C01) t='TestVerifRegressD1' ;;
 C04|C08) t='TestVerifRegressD2$' ;;
 C06) t='TestVerifRegressD3$|TestVerifRegressD4$' ;;
 C15) t='TestVerifRegressD6$|TestVerifRegressD7$' ;;
 C19) t='TestVerifRegressD8$' ;;
 C09) t='TestVerifRegressD5$' ;;
 C05|C03) t='TestVerifRegressD9$' ;;
esac
if [ -n "$t" ]; then
 mkdir -p replays/$p
 if ! sh regress/run.sh /repo "$t" > replays/$p/regress.log 2>&1; then
  cat replays/$p/regress.log
  echo "VIOLATION property=$p replay=/verif/replays/$p/regress.log (regression history $t fails on the real code; run: sh regress/run.sh /repo '$t')"
  exit 1
 fi
 echo "$p: regression histories $t pass on the real code"
fi
if [ "$p" = C01 ]; then sh lemmas/check.sh || exit 2; fi
python3 selftest/run.py -j 3 -p "$p" || exit 2
exit 0
